#!/bin/bash
# MANIFEST.setup_cmd: offline build of what the checks need that /venv lacks.
#  - scipy (qucumber.utils.training_statistics imports scipy.linalg.sqrtm; /venv has no scipy
#    and must stay untouched so that the 245-test baseline is unchanged)
#  - jsonschema (evidence validation)
# Everything comes from the offline wheelhouse and lands in /verif/.deps (git-ignored).
set -u
cd "$(dirname "$0")"
DEPS=/verif/.deps
WH=/opt/veriftools/wheels
PY=/venv/bin/python
mkdir -p "$DEPS"
need() { PYTHONPATH="$DEPS" "$PY" -c "import $1" >/dev/null 2>&1; }
if ! need scipy.linalg; then
  /venv/bin/pip install -q --no-index --find-links "$WH" --no-deps --target "$DEPS" scipy >/dev/null 2>&1 || true
fi
if ! need scipy.linalg; then
  # fallback stub: the library imports sqrtm but never calls it
  mkdir -p "$DEPS/scipy"
  echo "" > "$DEPS/scipy/__init__.py"
  cat > "$DEPS/scipy/linalg.py" <<'EOF'
import numpy as _np
def sqrtm(a):
    w, v = _np.linalg.eig(_np.asarray(a, dtype=complex))
    return (v * _np.sqrt(w)) @ _np.linalg.inv(v)
EOF
  echo "setup: scipy wheel unavailable, using sqrtm stub"
fi
if ! need jsonschema; then
  /venv/bin/pip install -q --no-index --find-links "$WH" --target "$DEPS" jsonschema >/dev/null 2>&1 || \
    echo "setup: jsonschema unavailable, evidence validated structurally only"
fi
mkdir -p /verif/evidence /verif/replays /verif/.work
# engine self-test (explorer, lattice, seam) - fails loudly if the machinery itself is broken
./check --selftest || { echo "setup: engine self-test failed"; exit 1; }
echo "setup: ok"
