import sys, os; sys.path[:0]=[os.environ.get('VERIF_REPO','/repo'),'/verif/.deps','/verif/design_probes']
import torch, numpy as np, itertools, warnings
from ref import *
from qucumber.nn_states import PositiveWaveFunction, ComplexWaveFunction, DensityMatrix
from qucumber.rbm import BinaryRBM, PurificationRBM
from qucumber.utils import cplx, unitaries
import qucumber.utils.training_statistics as ts
from qucumber.observables import *
warnings.simplefilter("ignore")
rng=np.random.default_rng(5)
def setp(rbm, scale=1.):
    for p in rbm.parameters(): p.data = torch.tensor(rng.uniform(-scale,scale,size=tuple(p.shape)))
# ---- C05 purification conditionals vs joint
r=PurificationRBM(2,2,2,gpu=False); setp(r,1.5)
W,U,b,c,d=[p.numpy() for p in (r.weights_W,r.weights_U,r.visible_bias,r.hidden_bias,r.aux_bias)]
V,H,A=bits(2),bits(2),bits(2)
J=np.zeros((4,4,4))
for i,v in enumerate(V):
    for j,h in enumerate(H):
        for k,a in enumerate(A): J[i,j,k]=np.exp(b@v+c@h+d@a+h@W@v+a@U@v)
err=0
for i,v in enumerate(V):
    ph=r.prob_h_given_v(torch.tensor(v)).numpy(); pa=r.prob_a_given_v(torch.tensor(v)).numpy()
    for u in range(2):
        err=max(err,abs(ph[u]-J[i][H[:,u]==1].sum()/J[i].sum()), abs(pa[u]-J[i][:,A[:,u]==1].sum()/J[i].sum()))
for j,h in enumerate(H):
    for k,a in enumerate(A):
        pv=r.prob_v_given_ha(torch.tensor(h),torch.tensor(a)).numpy()
        for u in range(2): err=max(err,abs(pv[u]-J[V[:,u]==1,j,k].sum()/J[:,j,k].sum()))
print("C05 purif conditionals err",err)
# marginal of joint over h,a equals probability
dm=DensityMatrix(2,2,2,gpu=False); dm.rbm_am=r
print("C05 purif marginal err", np.abs(J.sum((1,2))-dm.probability(torch.tensor(V)).numpy()).max())
# k=0 / overwrite semantics
v0=torch.tensor([[0.,1.]],dtype=torch.double); x=r.gibbs_steps(0,v0); print("k=0 same obj?", x is v0, torch.equal(x,v0))
x=r.gibbs_steps(2,v0,overwrite=True); print("overwrite same storage", x.data_ptr()==v0.data_ptr())
# ---- C08 NeighbourInteraction & absolute
st=ComplexWaveFunction(4,3,gpu=False); setp(st.rbm_am); setp(st.rbm_ph)
sp=st.generate_hilbert_space(); Zn=st.normalization(sp).item(); p=st.probability(sp).numpy()/Zn
psi=cplx.numpy(st.psi(sp))/np.sqrt(Zn); rho=np.outer(psi,psi.conj()); n=4
Zl=np.diag([-1.,1.]).astype(complex)
for per in (False,True):
    for c in range(1,5):
        O=NeighbourInteraction(periodic_bcs=per,c=c)
        try:
            val=(O.apply(st,sp).numpy()*p).sum()
            pairs=[(i,(i+c)%n) for i in range(n)] if per else [(i,i+c) for i in range(n-c)]
            want=sum(np.trace(rho@site_op(Zl,i,n)@site_op(Zl,j,n)).real for i,j in pairs)/n
            print("C08 NI",per,c,abs(val-want))
        except Exception as e: print("C08 NI",per,c,"EXC",type(e).__name__,e)
for O in (SigmaX(absolute=True),SigmaY(absolute=True),SigmaZ(absolute=True)):
    O2=type(O)(); print("abs",type(O).__name__, (O.apply(st,sp)-O2.apply(st,sp).abs()).abs().max().item())
print("single row vs batch", (SigmaY().apply(st,sp[3:4])-SigmaY().apply(st,sp)[3:4]).abs().max().item())
# ---- C10 NLL and fidelity vs reference
samples=torch.tensor([[0,1,1,0],[1,1,0,0],[1,0,0,1]],dtype=torch.double); bases=np.array([list("XYZZ"),list("ZZZZ"),list("YXZY")])
ud=unitaries.create_dict()
tot=0
for s,bs in zip(samples,bases):
    Um=kron_all([cplx.numpy(ud[ch]) for ch in bs]); idx=int("".join(str(int(x)) for x in s),2)
    tot-=np.log(abs((Um@psi)[idx])**2)
print("C10 NLL", abs(ts.NLL(st,samples,sp,sample_bases=bases)-tot/3), type(ts.NLL(st,samples,sp,sample_bases=bases)))
t=rng.normal(size=16)+1j*rng.normal(size=16); t/=np.linalg.norm(t)
print("C10 fid", abs(ts.fidelity(st, cplx.make_complex(t), sp)-abs(np.vdot(t,psi))**2))
for bs in (["XYZZ"],["YYXZ","ZZZZ"]):
    kl=0
    for bstr in bs:
        Um=kron_all([cplx.numpy(ud[ch]) for ch in bstr]); pt=abs(Um@t)**2; pm=abs(Um@psi)**2; kl+=(pt*np.log(pt/pm)).sum()
    print("C10 KL",bs,abs(ts.KL(st,cplx.make_complex(t),sp,bases=bs)-kl/len(bs)))
# DM fidelity vs Uhlmann
dm=DensityMatrix(2,2,2,gpu=False); setp(dm.rbm_am); setp(dm.rbm_ph); dm.rbm_ph.aux_bias.data.zero_()
sp2=dm.generate_hilbert_space(); R=cplx.numpy(dm.rho(sp2,sp2)); R/=np.trace(R).real
M=rng.normal(size=(4,4))+1j*rng.normal(size=(4,4)); S=M@M.conj().T; S/=np.trace(S).real
def msqrt(A):
    w,v=np.linalg.eigh((A+A.conj().T)/2); return (v*np.sqrt(np.clip(w,0,None)))@v.conj().T
sr=msqrt(R); F=np.trace(msqrt(sr@S@sr)).real**2
print("C10 DM fid", abs(ts.fidelity(dm, cplx.make_complex(S), sp2)-F))
