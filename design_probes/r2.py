from lib import *
import time
t0=time.time(); n=0; worst=0; bad=[]
for nv,nh,na in itertools.product(range(1,4),range(1,3),range(1,4)):
    st=DensityMatrix(nv,nh,na,gpu=False); nets=[st.rbm_am,st.rbm_ph]
    sp=st.generate_hilbert_space(); D=len(sp)
    for tag,vals in param_cases([nparams(r) for r in nets], npat=2):
        vals[1][-na:]=[0.0]*na      # phase aux bias = 0
        if tag[0]=='dev' and tag[2][0]==1 and tag[2][1]>=nparams(st.rbm_ph)-na: continue
        for r,v in zip(nets,vals): set_flat(r,v)
        n+=1
        ref=ref_rho(get_p(st.rbm_am),get_p(st.rbm_ph))
        rho=cplx.numpy(st.rho(sp,sp)); scale=np.sqrt(np.outer(np.diag(ref).real,np.diag(ref).real))
        e1=np.max(np.abs(rho-ref)/scale)       # entrywise relative to sqrt(rho_ii rho_jj)
        e2=np.max(np.abs(rho-rho.conj().T)/scale)
        Hm=(rho+rho.conj().T)/2; d=np.sqrt(np.diag(Hm).real); e3=-min(0,np.linalg.eigvalsh(Hm/np.outer(d,d)).min())   # PSD of the correlation-normalised matrix
        p=st.probability(sp).numpy(); e4=np.max(np.abs(np.diag(rho).real-p)/p)
        e5=abs(st.normalization(sp).item()-np.trace(ref).real)/np.trace(ref).real
        i=np.repeat(np.arange(D),D); j=np.tile(np.arange(D),D)
        e6=np.max(np.abs(cplx.numpy(st.rho(sp[i],sp[j],expand=False))-rho[i,j])/scale[i,j])
        e7=max(abs(cplx.numpy(st.rho(sp[a],sp[b]))-rho[a,b])/scale[a,b] for a in range(D) for b in range(D))
        w=max(e1,e2,e3,e4,e5,e6,e7)
        if not np.isfinite(w) or w>1e-9: bad.append((nv,nh,na,tag,e1,e2,e3,e4,e5,e6,e7))
        else: worst=max(worst,w)
print("C02 cases",n,"worst",worst,"bad",len(bad),time.time()-t0); 
for b in bad[:8]: print(b)
