from lib import *
import time
def T(x): return torch.tensor(x,dtype=torch.double)
def tbits(n): return T(bits(n))
def t_rbm_logp(W,b,c,V):
    H=tbits(W.shape[0]); return torch.logsumexp((V@b)[:,None]+(H@c)[None,:]+V@W.t()@H.t(),1)
def t_pur(W,U,b,c,d,V):
    H=tbits(W.shape[0]); A=tbits(U.shape[0])
    ex=(V@b)[:,None,None]+(A@d)[None,:,None]+(H@c)[None,None,:]+(V@W.t()@H.t())[:,None,:]+(V@U.t()@A.t())[:,:,None]
    return torch.logsumexp(ex,2)
def kronU(basis,ud):
    U=torch.ones(1,1,dtype=torch.cdouble)
    for ch in basis: m=ud[ch]; U=torch.kron(U,torch.complex(m[0],m[1]))
    return U
def ref_losses(st, eps):
    """returns tensor L[s_idx, b_idx] = -log p^b(s) (unnormalised, regularised by eps on rotated mixed paths) and logZ, plus param leaves"""
    n=st.num_visible; V=tbits(n)
    leaves=[[p.detach().clone().requires_grad_(True) for p in getattr(st,net).parameters()] for net in st.networks]
    if isinstance(st,DensityMatrix):
        psi=torch.exp(torch.complex(t_pur(*leaves[0],V)/2,t_pur(*leaves[1],V)/2)); rho=psi@psi.conj().t()
        Z=torch.diagonal(rho).real.sum()
    else:
        la=t_rbm_logp(*leaves[0],V)
        ph=t_rbm_logp(*leaves[1],V) if len(leaves)>1 else torch.zeros_like(la)
        psi=torch.exp(torch.complex(la/2,ph/2)); Z=torch.exp(la).sum()
    ud=getattr(st,'unitary_dict',unitaries.create_dict())
    basesl=["".join(b) for b in itertools.product("XYZ",repeat=n)] if len(st.networks)>1 else ["Z"*n]
    L=[]
    for b in basesl:
        U=kronU(b,ud)
        if isinstance(st,DensityMatrix):
            p=torch.diagonal(U@rho@U.conj().t()).real
            L.append(-torch.log(p+(0 if set(b)=={"Z"} else eps)))
        else:
            L.append(-torch.log((U@psi).abs()**2))
    return torch.stack(L,1), torch.log(Z), leaves, basesl
def grads_of(scalar, leaves):
    g=torch.autograd.grad(scalar,[p for net in leaves for p in net],retain_graph=True,allow_unused=True)
    out=[];i=0
    for net in leaves:
        out.append(torch.cat([(g[i+j] if g[i+j] is not None else torch.zeros_like(p)).reshape(-1) for j,p in enumerate(net)])); i+=len(net)
    return out
