from lib import *
import time, tempfile, os
import qucumber.utils.data as qd
from qucumber.utils.unitaries import _convert_basis_element_to_index, rotate_psi
t0=time.time(); bad=[]; tot=0
st=PositiveWaveFunction(3,gpu=False)
for n in range(1,11):
    sp=st.generate_hilbert_space(n); ref=np.array(list(itertools.product([0.,1.],repeat=n))); tot+=1
    if not np.array_equal(sp.numpy(),ref): bad.append(("space",n))
    if not np.array_equal(_convert_basis_element_to_index(sp).numpy(),np.arange(2**n)): bad.append(("index",n))
    for k in range(2**n):
        if not np.array_equal(st.subspace_vector(k,size=n).numpy(),ref[k]): bad.append(("subspace",n,k)); break
for n in range(11,21):
    for k in {0,1,2**n-1}|{2**j for j in range(n)}|{2**j-1 for j in range(1,n)}|{2**j+1 for j in range(1,n-1)}:
        v=st.subspace_vector(k,size=n).numpy(); tot+=1
        if int("".join(str(int(x)) for x in v),2)!=k or _convert_basis_element_to_index(torch.tensor(v)).item()!=k: bad.append(("large",n,k))
try: st.generate_hilbert_space(st.max_size+1); bad.append("oversize accepted")
except ValueError: pass
# product state binding
for n in (2,3,4):
    s=ComplexWaveFunction(n,2,gpu=False); s.rbm_am.weights.data.zero_(); s.rbm_ph.weights.data.zero_(); s.rbm_am.hidden_bias.data.zero_(); s.rbm_ph.hidden_bias.data.zero_()
    b=np.array([0.3*(i+1) for i in range(n)]); m=np.array([0.5*(i+1)-0.2 for i in range(n)])
    s.rbm_am.visible_bias.data=torch.tensor(b); s.rbm_ph.visible_bias.data=torch.tensor(m)
    sp=s.generate_hilbert_space(); psi=cplx.numpy(s.psi(sp))
    c=2.0**(2/2)   # softplus(0)*nh/2 = log2 per hidden /2 each network amplitude: exp(nh*log2/2); phase exp(i nh log2 /2)
    want=kron_all([np.array([[1],[np.exp((b[i]+1j*m[i])/2)]]) for i in range(n)]).reshape(-1)*np.exp(2*math.log(2)/2)*np.exp(1j*2*math.log(2)/2); tot+=1
    if not np.allclose(psi,want): bad.append(("product",n))
    U=kron_all([cplx.numpy(s.unitary_dict[c]) for c in "X"+"Z"*(n-1)])
    if not np.allclose(cplx.numpy(rotate_psi(s,"X"+"Z"*(n-1),sp)),U@psi): bad.append(("rotate msb",n))
# refbasis exhaustive
for N,n in ((1,1),(2,2),(3,2),(2,3)):
    samples=torch.tensor(np.arange(N*n).reshape(N,n)%2+np.arange(N)[:,None]*0.0,dtype=torch.double)
    samples=torch.tensor([[float((r*n+c)%2) for c in range(n)] for r in range(N)],dtype=torch.double)+torch.arange(N,dtype=torch.double)[:,None]*10
    for assign in itertools.product("XYZ",repeat=N*n):
        B=np.array(assign).reshape(N,n); tot+=1
        got=qd.extract_refbasis_samples(samples,B)
        want=samples[[r for r in range(N) if all(ch=="Z" for ch in B[r])]]
        if got.shape!=want.shape or not torch.equal(got,want): bad.append(("refbasis",N,n,assign)); break
print("C19 checks",tot,"bad",bad[:5],time.time()-t0)
