from lib import *
import time
from qucumber.utils.unitaries import rotate_psi, rotate_rho, rotate_psi_inner_prod, rotate_rho_probs, create_dict
t0=time.time(); n_cases=0; worst=0; bad={}
def enc(z): z=np.asarray(z,dtype=complex); return torch.tensor(np.stack([z.real,z.imag]),dtype=torch.double)
rng=np.random.default_rng(1)
H=np.array([[1,1],[1,-1]])/np.sqrt(2); S=np.diag([1,1j]); 
th=0.7; G=np.array([[np.cos(th)*np.exp(0.3j), np.sin(th)*np.exp(1.1j)],[-np.sin(th)*np.exp(-1.1j), np.cos(th)*np.exp(-0.3j)]])
ud=create_dict(H=enc(H),S=enc(S),G=enc(G))
udn={k:cplx.numpy(v) for k,v in ud.items()}
# default dict semantic
for P,M in (("X",PX),("Y",PY)):
    U=udn[P]; assert np.allclose(U@M@U.conj().T, np.diag([1,-1])), P
assert np.allclose(udn["Z"],np.eye(2))
def rec(key,e):
    global worst
    worst=max(worst,e)
    if e>1e-9: bad[key]=bad.get(key,0)+1
for n in (1,2,3):
    cw=ComplexWaveFunction(n,2,unitary_dict=ud,gpu=False); set_flat(cw.rbm_am,pattern(nparams(cw.rbm_am),0)); set_flat(cw.rbm_ph,pattern(nparams(cw.rbm_ph),1,1))
    dm=DensityMatrix(n,2,2,unitary_dict=ud,gpu=False); set_flat(dm.rbm_am,pattern(nparams(dm.rbm_am),2)); v=pattern(nparams(dm.rbm_ph),3,1); v[-2:]=[0,0]; set_flat(dm.rbm_ph,v)
    sp=cw.generate_hilbert_space(); D=2**n
    psis=[np.eye(D)[k].astype(complex) for k in range(D)]+[1j*np.eye(D)[k] for k in range(D)]+[rng.normal(size=D)+1j*rng.normal(size=D) for _ in range(2)]+[None]
    rhos=[None]
    for j in range(D):
        for k in range(j,D):
            E=np.zeros((D,D),complex); E[j,k]=1
            if j==k: rhos.append(E)
            else: rhos+=[E+E.T, 1j*(E-E.T)]
    M=rng.normal(size=(D,D))+1j*rng.normal(size=(D,D)); rhos+= [M@M.conj().T, M+M.conj().T]
    letters="XYZ" if n==3 else "XYZHSG"
    batches=[list(range(D)), list(range(D))[::-1], [0,0,D-1]]+[[k] for k in range(D)]
    for basis in itertools.product(letters,repeat=n):
        bs="".join(basis); U=kron_all([udn[c] for c in bs])
        for psi in psis:
            pv = cplx.numpy(cw.psi(sp)) if psi is None else psi
            pt = None if psi is None else enc(psi)
            n_cases+=1
            rec("rotate_psi", np.abs(cplx.numpy(rotate_psi(cw,bs,sp,psi=pt))-U@pv).max()/max(1,np.abs(pv).max()))
            for idxs in batches:
                got=cplx.numpy(rotate_psi_inner_prod(cw,bs,sp[idxs],psi=pt)); rec("inner_prod"+("_model" if psi is None else "_explicit"), np.abs(got-(U@pv)[idxs]).max()/max(1,np.abs(pv).max()))
            Ups,Upv,vv=rotate_psi_inner_prod(cw,bs,sp,psi=pt,include_extras=True); rec("extras", (Ups-Upv.sum(1)).abs().max().item())
        for rho in rhos:
            rv = cplx.numpy(dm.rho(sp,sp)) if rho is None else rho
            rt = None if rho is None else enc(rho)
            n_cases+=1; sc=max(1,np.abs(rv).max())
            want=U@rv@U.conj().T
            rec("rotate_rho", np.abs(cplx.numpy(rotate_rho(dm,bs,sp,rho=rt))-want).max()/sc)
            for idxs in batches:
                got=rotate_rho_probs(dm,bs,sp[idxs],rho=rt).numpy(); rec("rho_probs"+("_model" if rho is None else "_explicit"+("_cplxU" if set(bs)&set("YSG") else "")), np.abs(got-np.diag(want).real[idxs]).max()/sc)
        # physical: rotated probs of model states non-negative and sum to Z
        pr=rotate_rho_probs(dm,bs,sp).numpy(); Z=dm.normalization(sp).item(); rec("phys", max(0,-pr.min()/Z)+abs(pr.sum()-Z)/Z)
        pr=np.abs(cplx.numpy(rotate_psi_inner_prod(cw,bs,sp)))**2; Z=cw.normalization(sp).item(); rec("phys", abs(pr.sum()-Z)/Z)
print("C04 cases",n_cases,"worst",worst,"bad keys",bad,time.time()-t0)
