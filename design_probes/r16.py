from lib import *
import time
from functools import lru_cache
from qucumber.observables import SigmaZ, SigmaX, NeighbourInteraction
from qucumber.observables.observable import ObservableBase
LE={'Z':SigmaZ(),'N':NeighbourInteraction(c=1),'X':SigmaX()}
SC={'0':0,'m1':-1,'2':2,'h':0.5,'f':np.float64(1.5),'T':True}
atoms=[('L',k) for k in LE]+[('S',k) for k in SC]
@lru_cache(None)
def trees(k):
    if k==0: return tuple(atoms)
    out=[('neg',t) for t in trees(k-1)]
    for i in range(k):
        for op in '+-*':
            for l in trees(i):
                for r in trees(k-1-i): out.append((op,l,r))
    return tuple(out)
st=ComplexWaveFunction(2,2,gpu=False); set_flat(st.rbm_am,pattern(8,0)); set_flat(st.rbm_ph,pattern(8,1,1)); sp=st.generate_hilbert_space()
leafval={k:o.apply(st,sp).numpy().copy() for k,o in LE.items()}
class Reject(Exception): pass
def build(t):
    if t[0]=='L': return LE[t[1]]
    if t[0]=='S': return SC[t[1]]
    if t[0]=='neg': return -build(t[1])
    a,b=build(t[1]),build(t[2])
    return a+b if t[0]=='+' else a-b if t[0]=='-' else a*b
def interp(t):
    """returns ('num',x) or ('obs',array); raises Reject for non-linear"""
    if t[0]=='L': return ('obs',leafval[t[1]])
    if t[0]=='S': return ('num',SC[t[1]])
    if t[0]=='neg': k,v=interp(t[1]); return (k,-v)
    (ka,a),(kb,b)=interp(t[1]),interp(t[2])
    if t[0]=='*' and ka=='obs' and kb=='obs': raise Reject()
    kind='obs' if 'obs' in (ka,kb) else 'num'
    return (kind, a+b if t[0]=='+' else a-b if t[0]=='-' else a*b)
t0=time.time(); tot=0; bad=[]; rej=0
for k in range(3):
    for t in trees(k):
        tot+=1
        try: kind,want=interp(t)
        except Reject:
            rej+=1
            try: build(t); bad.append(("not rejected",t))
            except (TypeError,ValueError): pass
            continue
        try: got=build(t)
        except Exception as e: bad.append(("raised",t,repr(e))); continue
        if kind=='num':
            if isinstance(got,ObservableBase) or got!=want: bad.append(("num",t,got,want))
        else:
            if not isinstance(got,ObservableBase): bad.append(("notobs",t)); continue
            v=got.apply(st,sp); v=np.broadcast_to(np.asarray(v,dtype=float),(4,))
            if not np.allclose(v,want,atol=1e-12): bad.append(("val",t,v,want))
print("C16 trees",tot,"rejected-as-nonlinear",rej,"bad",len(bad),time.time()-t0); print(bad[:5])
for junk in ("a",None,[1],1j):
    for f in (lambda o,j:o+j, lambda o,j:j+o, lambda o,j:o*j, lambda o,j:j*o, lambda o,j:o-j, lambda o,j:j-o):
        try: f(SigmaZ(),junk); print("junk accepted",junk)
        except Exception as e: pass
