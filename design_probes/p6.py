import sys, os; sys.path[:0]=[os.environ.get('VERIF_REPO','/repo'),'/verif/.deps','/verif/design_probes']
import torch, numpy as np, itertools, time, warnings
from torch.overrides import TorchFunctionMode
from qucumber.nn_states import PositiveWaveFunction, ComplexWaveFunction, DensityMatrix
from qucumber.callbacks import LambdaCallback
warnings.simplefilter("ignore")
torch.set_num_threads(1)
class Replay(Exception): pass
class Chooser(TorchFunctionMode):
    """Bernoulli outcomes chosen from a tape; records probabilities."""
    def __init__(s, tape): super().__init__(); s.tape=list(tape); s.pos=0; s.points=[]; s.logw=0.0
    def __torch_function__(s, func, types, args=(), kwargs=None):
        kwargs=kwargs or {}
        if getattr(func,'__name__','')=='bernoulli':
            p=args[0]; out=kwargs.get('out')
            n=p.numel(); 
            c = s.tape[s.pos] if s.pos < len(s.tape) else 0
            s.points.append(2**n); s.pos+=1
            bitsv=torch.tensor([(c>>i)&1 for i in range(n)],dtype=p.dtype).reshape(p.shape)
            pr=p.detach().clone()
            w=torch.where(bitsv>0, pr, 1-pr).prod().item(); s.w=getattr(s,'w',1.0)*w
            if out is not None: out.copy_(bitsv); return out
            return bitsv
        return func(*args, **kwargs)
def explore(body):
    """enumerate all choice tapes depth-first by prefix replay"""
    results=[]; stack=[[]]; n=0
    while stack:
        tape=stack.pop()
        ch=Chooser(tape)
        with ch: r=body()
        n+=1
        results.append((tuple(r), ch.w))
        for i in range(len(tape), len(ch.points)):
            for alt in range(1, ch.points[i]):
                stack.append(tape+[0]*(i-len(tape))+[alt])
    return results,n
st=PositiveWaveFunction(2,2,gpu=False)
rng=np.random.default_rng(1)
for p in st.rbm_am.parameters(): p.data=torch.tensor(rng.uniform(-1.5,1.5,size=tuple(p.shape)))
sp=st.generate_hilbert_space()
t=time.time()
K=2
T=np.zeros((4,4))
for i,v0 in enumerate(sp):
    res,n=explore(lambda: st.sample(k=K, initial_state=v0.clone().unsqueeze(0))[0].tolist())
    for r,w in res:
        j=int(r[0]*2+r[1]); T[i,j]+=w
print("execs per start",n,"time",time.time()-t)
print(T.sum(1))
p=st.probability(sp).numpy(); p/=p.sum()
print("stationary resid", np.abs(p@T-p).max(), "DB resid", np.abs(p[:,None]*T - (p[:,None]*T).T).max())
# fit timing
data=torch.tensor([[0.,1.],[1.,1.],[1.,0.]])
t=time.time()
for _ in range(50): st.fit(data, epochs=2, pos_batch_size=2, neg_batch_size=1)
print("fit time", (time.time()-t)/50)
d=DensityMatrix(2,2,2,gpu=False); bases=np.array([list("ZZ"),list("XY"),list("ZZ")])
t=time.time()
for _ in range(20): d.fit(data, epochs=2, pos_batch_size=2, neg_batch_size=1, input_bases=bases)
print("DM fit time", (time.time()-t)/20)
