from lib import *
import time, random, hashlib, tempfile, os
import qucumber
import qucumber.utils.training_statistics as ts
from qucumber.observables import SigmaZ,SigmaX,System,SWAP
from qucumber.utils.unitaries import rotate_psi, rotate_rho
def H(x):
    if isinstance(x,torch.Tensor): return hashlib.sha256(x.detach().numpy().tobytes()).hexdigest()[:12]
    if isinstance(x,dict): return tuple(sorted((k,H(v)) for k,v in x.items()))
    if isinstance(x,(list,tuple)): return tuple(H(v) for v in x)
    if isinstance(x,float) and x!=x: return "nan"
    return repr(x)
def params(st): return tuple(H(p) for net in st.networks for p in getattr(st,net).parameters())
data=torch.tensor([[0.,1.],[1.,1.],[1.,0.]],dtype=torch.double); bases=np.array([list("ZZ"),list("XY"),list("YZ")])
tmp=tempfile.mkdtemp(dir=None)
READONLY={"sample","sample_init","stats","sysstats","grad","exact","rotate","metric","save","apply"}
def do(op,st):
    kw=dict(input_bases=bases) if len(st.networks)>1 else {}
    sp=st.generate_hilbert_space()
    if op=="reinit": st.reinitialize_parameters(); return None
    if op=="sample": return st.sample(k=3,num_samples=40)
    if op=="sample_init": return st.sample(k=2,initial_state=data.clone())
    if op=="stats": return SigmaX().statistics(st,num_samples=6,num_chains=3,burn_in=2,steps=1)
    if op=="sysstats": return System(SigmaZ(),SWAP([0])).statistics(st,num_samples=4,num_chains=2,burn_in=1)
    if op=="fit": st.fit(data,epochs=2,pos_batch_size=2,neg_batch_size=3,k=2,lr=0.1,**kw); return None
    if op=="grad": return st.gradient(data,bases) if len(st.networks)>1 else st.gradient(data)
    if op=="exact": return st.compute_exact_gradients(data,sp,bases_batch=bases if len(st.networks)>1 else None)
    if op=="rotate": return rotate_rho(st,"XY",sp) if isinstance(st,DensityMatrix) else (rotate_psi(st,"XY",sp) if len(st.networks)>1 else st.psi(sp))
    if op=="metric": return ts.NLL(st,data,sp,sample_bases=bases if len(st.networks)>1 else None)
    if op=="save": st.save(os.path.join(tmp,"x.pt"),{"a":1}); return None
    if op=="apply": return SigmaX().apply(st,sp)
OPS=["reinit","sample","sample_init","stats","sysstats","fit","grad","exact","rotate","metric","save","apply"]
def run(Tt,hist,seed,perturb):
    qucumber.set_random_seed(seed,cpu=True,gpu=False,quiet=True)
    if perturb: np.random.seed(perturb); random.seed(perturb)
    st=Tt(2,gpu=False); outs=[params(st)]; ro_ok=True
    for op in hist:
        if perturb: np.random.rand(perturb%5+1); random.random()
        before=params(st); r=do(op,st)
        if op in READONLY and params(st)!=before: ro_ok=False
        outs.append((H(r),params(st)))
    return outs,ro_ok
t0=time.time(); tot=0; bad=[]
ns0=np.random.get_state()[1].copy()
for Tt in (PositiveWaveFunction,ComplexWaveFunction,DensityMatrix):
    for hist in itertools.chain(itertools.product(OPS,repeat=1),itertools.product(OPS,repeat=2)):
        a,ro=run(Tt,hist,11,0); b,_=run(Tt,hist,11,77); c,_=run(Tt,hist,12,0); tot+=1
        if a!=b: bad.append(("nonrepro",Tt.__name__,hist))
        if not ro: bad.append(("readonly changed params",Tt.__name__,hist))
        if a==c: bad.append(("seed ignored",Tt.__name__,hist))
print("C14 histories",tot,"bad",len(bad),bad[:5],time.time()-t0)
