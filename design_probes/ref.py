"""Scratch reference model (numpy, brute force from definitions)."""
import itertools, numpy as np

def bits(n):
    return np.array(list(itertools.product([0.,1.], repeat=n))).reshape(2**n, n)

def rbm_logp_joint(W,b,c,v,h):           # -E(v,h)
    return b@v + c@h + h@W@v

def rbm_p(W,b,c):
    nh,nv = W.shape
    V,H = bits(nv), bits(nh)
    return np.array([sum(np.exp(rbm_logp_joint(W,b,c,v,h)) for h in H) for v in V])

def rbm_logp(W,b,c):                      # log p(v) stable
    nh,nv = W.shape
    V,H = bits(nv), bits(nh)
    out=[]
    for v in V:
        xs=np.array([rbm_logp_joint(W,b,c,v,h) for h in H]); m=xs.max()
        out.append(m+np.log(np.exp(xs-m).sum()))
    return np.array(out)

def psi_complex(lam, mu):
    la = rbm_logp(*lam); ph = rbm_logp(*mu)
    return np.exp(la/2) * np.exp(1j*ph/2)

def pur_logp_va(W,U,b,c,d):
    """log p(v,a) with hidden traced: shape (2^nv, 2^na)"""
    nh,nv = W.shape; na=U.shape[0]
    V,H,A = bits(nv), bits(nh), bits(na)
    out=np.zeros((len(V),len(A)))
    for i,v in enumerate(V):
        for k,a in enumerate(A):
            xs=np.array([b@v + c@h + d@a + h@W@v + a@U@v for h in H]); m=xs.max()
            out[i,k]=m+np.log(np.exp(xs-m).sum())
    return out

def rho_purif(lam, mu):
    la = pur_logp_va(*lam); ph = pur_logp_va(*mu)
    psi = np.exp(la/2)*np.exp(1j*ph/2)      # (2^nv, 2^na)
    return psi @ psi.conj().T

X = np.array([[0,1],[1,0]],dtype=complex); Y=np.array([[0,-1j],[1j,0]]); Z=np.diag([1.,-1.]).astype(complex); I2=np.eye(2,dtype=complex)
def kron_all(ms):
    out=np.array([[1.+0j]])
    for m in ms: out=np.kron(out,m)
    return out
def site_op(P,i,n): return kron_all([P if j==i else I2 for j in range(n)])
