import sys, os; sys.path[:0]=[os.environ.get('VERIF_REPO','/repo'),'/verif/.deps','/verif/design_probes']
import torch, numpy as np, itertools, warnings, math, io, contextlib, hashlib
from qucumber.nn_states import PositiveWaveFunction, ComplexWaveFunction, DensityMatrix
from qucumber.callbacks import *
warnings.simplefilter("ignore")
def ref_protocol(e0,E,nb,inject,pre):
    """inject = index of event (0-based, in the emitted sequence) during which stop is requested; None = never"""
    out=[]; stop=pre
    def emit(*e):
        nonlocal stop
        if inject is not None and len(out)==inject: stop=True
        out.append((e,stop))
    if stop: return out
    emit("train_start")
    for ep in range(e0,E+1):
        emit("epoch_start",ep)
        for b in range(nb):
            emit("batch_start",ep,b); emit("batch_end",ep,b)
            if stop: break
        emit("epoch_end",ep)
        if stop: break
    out.append((("train_end",),stop))
    return out
class Rec(CallbackBase):
    def __init__(s,glog,cid,inject=None): s.glog=glog; s.cid=cid; s.inject=inject; s.n=0
    def _ev(s,nn,*e):
        if s.inject is not None and s.n==s.inject: nn.stop_training=True
        h=hashlib.sha256(b"".join(p.detach().numpy().tobytes() for net in nn.networks for p in getattr(nn,net).parameters())).hexdigest()[:8]
        s.glog.append((s.cid,e,nn.stop_training,h)); s.n+=1
    def on_train_start(s,nn): s._ev(nn,"train_start")
    def on_train_end(s,nn): s._ev(nn,"train_end")
    def on_epoch_start(s,nn,ep): s._ev(nn,"epoch_start",ep)
    def on_epoch_end(s,nn,ep): s._ev(nn,"epoch_end",ep)
    def on_batch_start(s,nn,ep,b): s._ev(nn,"batch_start",ep,b)
    def on_batch_end(s,nn,ep,b): s._ev(nn,"batch_end",ep,b)
bad=0; tot=0
data=torch.tensor([[0.,1.],[1.,1.],[1.,0.]]); bases=np.array([list("ZZ"),list("XY"),list("ZZ")])
for T in (PositiveWaveFunction, ComplexWaveFunction, DensityMatrix):
  for e0,E,N,pb,tm in itertools.product(range(0,3),range(0,3),(1,2,3),(1,2),(False,True)):
    if T is not PositiveWaveFunction and N==1: continue   # F9
    nb=math.ceil(N/pb)
    full=ref_protocol(e0,E,nb,None,False)
    for inject in [None,"pre"]+list(range(len(full)-1)):
      for pos in (0,1,2):     # injector position among 3 callbacks
        st=T(2,2,gpu=False); glog=[]
        pre = inject=="pre"
        st.stop_training=pre
        cbs=[Rec(glog,i,inject if (i==pos and isinstance(inject,int)) else None) for i in range(3)]
        kw=dict(input_bases=bases[:N]) if T is not PositiveWaveFunction else {}
        with contextlib.redirect_stdout(io.StringIO()):
            st.fit(data[:N],epochs=E,starting_epoch=e0,pos_batch_size=pb,time=tm,callbacks=cbs,**kw)
        tot+=1
        want=ref_protocol(e0,E,nb,inject if isinstance(inject,int) else None,pre)
        ok=True
        for i in range(3):
            mine=[(e,s) for (c,e,s,h) in glog if c==i]
            # stop flag seen by callback i at the injection event: True iff i>=pos
            exp=[(e, (s if not (isinstance(inject,int) and k==inject) else (i>=pos))) for k,(e,s) in enumerate(want)]
            ok &= mine==exp
        # list order within event
        ok &= all(glog[j][0]==j%3 for j in range(len(glog)))
        # params change only inside batches
        for j in range(1,len(glog)):
            if glog[j][3]!=glog[j-1][3]:
                ok &= glog[j][1][0]=="batch_end" and glog[j-1][1][0]=="batch_start"
        ok &= st.stop_training == (pre or isinstance(inject,int))
        if not ok:
            bad+=1
            if bad<4: print("BAD",T.__name__,e0,E,N,pb,tm,inject,pos)
print("C12 cases",tot,"bad",bad)
