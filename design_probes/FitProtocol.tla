---- MODULE FitProtocol ----
EXTENDS Naturals, Sequences
CONSTANTS E0, E, NB
VARIABLES pc, ep, b, stop, trace
vars == <<pc, ep, b, stop, trace>>
Init == pc = "start" /\ ep = E0 /\ b = 0 /\ stop \in {FALSE, TRUE} /\ trace = <<>>
\* emit event e; the environment may raise the (sticky) stop flag during it
Emit(e) == /\ stop' \in {stop, TRUE}
           /\ trace' = Append(trace, <<e, stop'>>)
Start == /\ pc = "start"
         /\ IF stop THEN pc' = "done" /\ UNCHANGED <<ep,b,stop,trace>>
            ELSE pc' = "epoch" /\ Emit(<<"train_start">>) /\ UNCHANGED <<ep,b>>
Epoch == /\ pc = "epoch"
         /\ IF ep > E THEN pc' = "end" /\ UNCHANGED <<ep,b,stop,trace>>
            ELSE pc' = "batch" /\ b' = 0 /\ Emit(<<"epoch_start", ep>>) /\ UNCHANGED ep
BatchS == /\ pc = "batch"
          /\ IF b >= NB THEN pc' = "eend" /\ UNCHANGED <<ep,b,stop,trace>>
             ELSE pc' = "bend" /\ Emit(<<"batch_start", ep, b>>) /\ UNCHANGED <<ep,b>>
BatchE == /\ pc = "bend" /\ Emit(<<"batch_end", ep, b>>)
          /\ b' = b + 1 /\ UNCHANGED ep
          /\ pc' = IF stop' THEN "eend" ELSE "batch"
EpochE == /\ pc = "eend" /\ Emit(<<"epoch_end", ep>>) /\ UNCHANGED b
          /\ ep' = ep + 1
          /\ pc' = IF stop' THEN "end" ELSE "epoch"
End == /\ pc = "end" /\ trace' = Append(trace, <<<<"train_end">>, stop>>) /\ pc' = "done" /\ UNCHANGED <<ep,b,stop>>
Next == Start \/ Epoch \/ BatchS \/ BatchE \/ EpochE \/ End
Spec == Init /\ [][Next]_vars
Ev(i) == trace[i][1]
StopAfter(i) == trace[i][2]
NoBatchAfterStopSeen ==
  \A i \in 1..Len(trace) : \A j \in 1..Len(trace) :
     (i < j /\ StopAfter(i) /\ Ev(i)[1] \in {"batch_end","epoch_end"}) => Ev(j)[1] \notin {"batch_start","epoch_start"}
TrainEndOnce == pc = "done" => (trace = <<>> \/ (Ev(1)[1] = "train_start" /\ Ev(Len(trace))[1] = "train_end"
                 /\ \A i \in 1..(Len(trace)-1) : Ev(i)[1] # "train_end"))
====
