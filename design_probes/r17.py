from lib import *
import time, tempfile, os, csv, shutil, hashlib, io, contextlib
from qucumber.callbacks import *
from qucumber.observables import SigmaZ, SigmaX
def H(ps): return hashlib.sha256(b"".join(p.detach().numpy().tobytes() for p in ps)).hexdigest()[:10]
data=torch.tensor([[0.,1.],[1.,1.],[1.,0.]]); bases=np.array([list("ZZ"),list("XY"),list("YZ")])
t0=time.time(); tot=0; bad=[]
for Tt in (PositiveWaveFunction,ComplexWaveFunction):
  for p1,p2,pl,ps,e0,E,stop_at,mdkind,mdonly,save_init in itertools.product((1,2,3),(1,2),(1,2),(1,2),(1,2),(0,3,5),(None,2,4),("none","dict","callable"),(False,True),(True,False)):
    if hash((p1,p2,pl,ps,e0,E,stop_at,mdkind,mdonly,save_init))%5: continue
    d=tempfile.mkdtemp(dir=None); torch.manual_seed(5)
    st=Tt(2,2,gpu=False)
    rec={}   # epoch -> dict
    m1=lambda s,**kw: float(s.rbm_am.weights.sum())+kw.get("off",0)
    me=MetricEvaluator(p1,{"a":m1,"b":lambda s,**kw: 2.0},log=os.path.join(d,"m.csv"),off=3)
    oe=ObservableEvaluator(p2,[SigmaZ(),SigmaX()],log=os.path.join(d,"o.csv"),num_samples=4,num_chains=2,burn_in=1,steps=1)
    ostats=[]; osys=oe.system.statistics
    oe.system.statistics=lambda *a,**k: (lambda r: (ostats.append(r),r)[1])(osys(*a,**k))
    msgs=[]; lg=Logger(pl,logger_fn=msgs.append,msg_gen=lambda s,e,**kw: f"{e}:{kw}",tagv=7)
    md={"none":None,"dict":{"note":"x"},"callable":(lambda s,e:{"epoch":e})}[mdkind]
    ms=ModelSaver(ps,os.path.join(d,"sv"),"ep{}.pt",save_initial=save_init,metadata=md,metadata_only=mdonly)
    snaps={}
    R=LambdaCallback(on_train_start=lambda s: snaps.__setitem__("initial",[p.clone() for net in s.networks for p in getattr(s,net).parameters()]),
                     on_epoch_end=lambda s,e: (snaps.__setitem__(e,[p.clone() for net in s.networks for p in getattr(s,net).parameters()]), rec.__setitem__(e,m1(s,off=3)), (setattr(s,"stop_training",True) if e==stop_at else None)))
    kw=dict(input_bases=bases) if Tt is ComplexWaveFunction else {}
    tot+=1; why=None
    try: st.fit(data,epochs=E,starting_epoch=e0,pos_batch_size=2,callbacks=[me,oe,lg,ms,R],**kw)
    except Exception as ex: why=("exception",type(ex).__name__,mdkind,Tt.__name__)
    if why is None:
        ran=[e for e in range(e0,E+1) if stop_at is None or e<=stop_at or stop_at<e0]
        if stop_at is not None and stop_at<e0: ran=list(range(e0,E+1))
        ran=sorted(rec.keys())
        def sched(p): return [e for e in ran if e%p==0]
        if list(me.epochs)!=sched(p1) or len(me)!=len(sched(p1)): why="me epochs"
        elif any(abs(me.a[i]-rec[e])>1e-15 or me["a"][i]!=me.get_value("a",i) or me.get_value("a",i-len(me))!=me.a[i] for i,e in enumerate(sched(p1))): why="me values"
        elif len(me) and (me.last!={"a":rec[sched(p1)[-1]],"b":2.0} or me.get_value("b")!=2.0): why="me last"
        elif list(oe.epochs)!=sched(p2) or len(ostats)!=len(sched(p2)): why="oe epochs"
        elif any(oe.get_value("SigmaZ",i)!=ostats[i]["SigmaZ"] or oe.SigmaX.mean[i]!=ostats[i]["SigmaX"]["mean"] or oe["SigmaZ"].variances[i]!=ostats[i]["SigmaZ"]["variance"] for i in range(len(ostats))): why="oe values"
        elif msgs!=[f"{e}:{{'tagv': 7}}" for e in sched(pl)]: why="logger"
        else:
            rows=list(csv.DictReader(open(os.path.join(d,"m.csv"))))
            if [int(r["epoch"]) for r in rows]!=sched(p1) or any(float(r["a"])!=rec[int(r["epoch"])] for r in rows): why="csv"
            files=sorted(os.listdir(os.path.join(d,"sv")))
            wantf=sorted([f"ep{e}.pt" for e in sched(ps)]+(["epinitial.pt"] if save_init and "initial" in snaps else []))
            if files!=wantf: why=("files",files,wantf)
            else:
                for f in files:
                    key=f[2:-3]; key=key if key=="initial" else int(key)
                    sd=torch.load(os.path.join(d,"sv",f))
                    expmd={"none":{},"dict":{"note":"x"},"callable":{"epoch":0 if key=="initial" else key}}[mdkind]
                    if mdonly:
                        if sd!=expmd: why=("mdonly",sd)
                    else:
                        m2=Tt.autoload(os.path.join(d,"sv",f),gpu=False)
                        if H([p for net in m2.networks for p in getattr(m2,net).parameters()])!=H(snaps[key]): why=("params",f)
                        if {k:v for k,v in sd.items() if k not in st.networks and k!="unitary_dict"}!=expmd: why=("md",f)
    if why: bad.append(why)
    shutil.rmtree(d)
from collections import Counter
print("C17 runs",tot,"bad",len(bad),Counter(map(str,bad)).most_common(5),time.time()-t0)
