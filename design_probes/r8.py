from lib import *
import time
from qucumber.observables import SigmaX,SigmaY,SigmaZ,NeighbourInteraction,SWAP
t0=time.time(); tot=0; bad=[]; worst=0
for Tt,arch in [(PositiveWaveFunction,(3,2)),(ComplexWaveFunction,(2,3)),(ComplexWaveFunction,(3,2)),(DensityMatrix,(2,2,2)),(DensityMatrix,(3,1,2))]:
    st=Tt(*arch,gpu=False); nets=[getattr(st,x) for x in st.networks]; n=arch[0]; sp=st.generate_hilbert_space(); D=2**n
    ops={}
    for nm,P in (("X",PX),("Y",PY),("Z",PZl)): ops[nm]=sum(site_op(P,i,n) for i in range(n))/n
    for per in (False,True):
        for c in range(1,n+1):
            pairs=[(i,(i+c)%n) for i in range(n)] if per else [(i,i+c) for i in range(n-c)]
            ops[("NI",per,c)]=sum((site_op(PZl,i,n)@site_op(PZl,j,n) for i,j in pairs),np.zeros((D,D),complex))/n
    obs={"X":SigmaX(),"Y":SigmaY(),"Z":SigmaZ()}
    for per in (False,True):
        for c in range(1,n+1): obs[("NI",per,c)]=NeighbourInteraction(periodic_bcs=per,c=c)
    for tag,vals in param_cases([nparams(r) for r in nets],npat=2):
        if Tt is DensityMatrix:
            na=st.num_aux; vals[1][-na:]=[0.0]*na
            if tag[0]=='dev' and tag[2][0]==1 and tag[2][1]>=nparams(st.rbm_ph)-na: continue
        for r,v in zip(nets,vals): set_flat(r,v)
        Z=st.normalization(sp).item(); p=st.probability(sp).numpy()/Z
        if Tt is DensityMatrix: rho=cplx.numpy(st.rho(sp,sp))/Z
        else: psi=cplx.numpy(st.psi(sp))/math.sqrt(Z); rho=np.outer(psi,psi.conj())
        for k,O in obs.items():
            sp0=sp.clone(); val=O.apply(st,sp); tot+=1
            e=abs(float((val.numpy()*p).sum())-np.trace(rho@ops[k]).real)
            if not torch.equal(sp,sp0) or val.shape!=(D,) or not e<=1e-9: bad.append((Tt.__name__,arch,tag,k,e))
            else: worst=max(worst,e)
        # SWAP purity, all subsets
        if tag[0]=='pat' or abs(tag[2][2])<=7:
            r=rho.reshape([2]*(2*n))
            for mask in range(2**n):
                A=[i for i in range(n) if mask>>i&1]
                i2=np.repeat(np.arange(D),D); j2=np.tile(np.arange(D),D)
                # evaluate all ordered pairs via two-row batches stacked: build big batch of pairs interleaved
                tot+=1; acc=0.0
                S=SWAP(A)
                for i in range(D):
                    for j in range(D):
                        acc+=p[i]*p[j]*S.apply(st,torch.stack([sp[i],sp[j]]))[0].item()
                rA=np.einsum(r,list(range(n))+[(k+n if k in A else k) for k in range(n)],[k for k in A]+[k+n for k in A]).reshape(2**len(A),-1)
                e=abs(acc-np.trace(rA@rA).real)
                if not e<=1e-9: bad.append(("SWAP",Tt.__name__,arch,tag,A,e))
                else: worst=max(worst,e)
print("C08/C09 evaluations",tot,"worst",worst,"bad",len(bad),time.time()-t0); print(bad[:6])
