import sys, os; sys.path[:0]=[os.environ.get('VERIF_REPO','/repo'),'/verif/.deps']
import torch, numpy as np, itertools
import qucumber
from qucumber.nn_states import PositiveWaveFunction, ComplexWaveFunction, DensityMatrix
from qucumber.rbm import BinaryRBM, PurificationRBM
from qucumber.utils import cplx, unitaries
import qucumber.utils.training_statistics as ts
torch.manual_seed(0)

# C20: module= path
for T,R in [(PositiveWaveFunction,BinaryRBM),(ComplexWaveFunction,BinaryRBM),(DensityMatrix,PurificationRBM)]:
    try:
        m = R(3, 2, gpu=False) if R is BinaryRBM else R(3,2,2,gpu=False)
        s = T(3, gpu=False, module=m)
        print(T.__name__, "module ok", s.rbm_am is m)
    except Exception as e:
        print(T.__name__, "module FAIL", type(e).__name__, e)

# C11: save twice with same metadata
import tempfile, os
d = tempfile.mkdtemp()
s = ComplexWaveFunction(2, gpu=False)
md = {"a": 1}
s.save(os.path.join(d,"x.pt"), md)
print("md after save:", list(md.keys()))
try:
    s.save(os.path.join(d,"x.pt"), md)
    print("second save ok")
except Exception as e:
    print("second save FAIL", e)
try:
    s2 = ComplexWaveFunction.autoload(os.path.join(d,"x.pt"))
    print("autoload ok")
except Exception as e:
    print("autoload FAIL", type(e).__name__, str(e)[:300])
