import sys, os; sys.path[:0]=[os.environ.get('VERIF_REPO','/repo'),'/verif/.deps','/verif/design_probes']
import torch, numpy as np, itertools, warnings, tempfile, os, io, contextlib, csv, random
from qucumber.nn_states import PositiveWaveFunction, ComplexWaveFunction, DensityMatrix
from qucumber.rbm import BinaryRBM, PurificationRBM
from qucumber.callbacks import *
from qucumber.observables import *
import qucumber, qucumber.utils.data as qd
import qucumber.utils.training_statistics as ts
warnings.simplefilter("ignore")
d=tempfile.mkdtemp()
# ---- C17
st=PositiveWaveFunction(2,2,gpu=False)
data=torch.tensor([[0.,1.],[1.,1.],[1.,0.]])
rec=[]
m1=lambda s,**kw: float(s.rbm_am.weights.sum())
m2=lambda s,**kw: float(s.rbm_am.visible_bias.sum())+kw.get('off',0)
me=MetricEvaluator(2,{"a":m1,"b":m2},log=os.path.join(d,"m.csv"),off=10)
oe=ObservableEvaluator(3,[SigmaZ(),SigmaX()],log=os.path.join(d,"o.csv"),num_samples=4,num_chains=2,burn_in=1,steps=1)
msgs=[]
lg=Logger(2,logger_fn=msgs.append,foo=1)
ms=ModelSaver(2,os.path.join(d,"sv"),"ep{}.pt",metadata=lambda s,e: {"epoch":e})
snap={}
R=LambdaCallback(on_epoch_end=lambda s,e: snap.__setitem__(e,(m1(s),m2(s,off=10),[p.clone() for p in s.rbm_am.parameters()])))
st.fit(data,epochs=7,pos_batch_size=2,callbacks=[me,oe,lg,ms,R])
print("C17 me", len(me), me.epochs, me.a, me["b"], me.last, me.get_value("a",0), me.get_value("a"), me.names)
print("   ok vals:", all(abs(me.get_value("a",i)-snap[e][0])<1e-15 for i,e in enumerate(me.epochs)))
print("C17 oe", len(oe), oe.epochs, oe.names, oe.SigmaZ.mean, oe["SigmaX"].variances, oe.SigmaZ.num_samples, oe.get_value("SigmaZ",-1))
print("C17 log", msgs)
print("C17 files", sorted(os.listdir(os.path.join(d,"sv"))))
s2=PositiveWaveFunction.autoload(os.path.join(d,"sv","ep4.pt"),gpu=False)
print("   ep4 params equal:", all(torch.equal(a,b) for a,b in zip(s2.rbm_am.parameters(), snap[4][2])), torch.load(os.path.join(d,"sv","ep4.pt"))["epoch"])
print(open(os.path.join(d,"m.csv")).read()); print(open(os.path.join(d,"o.csv")).read()[:300])
try: me.zzz
except AttributeError as e: print("unknown metric AttributeError ok")
me.clear_history(); print("cleared", len(me), me.last, me.epochs)
# ---- C19 loaders
np.savetxt(os.path.join(d,"s.txt"), np.array([[0,1,1],[1,0,0]]), fmt="%d")
with open(os.path.join(d,"psi.txt"),"w") as f: f.write("0.123456789 -0.987654321\n0.5 0.25\n")
with open(os.path.join(d,"tb.txt"),"w") as f: f.write("Z X Y\nZ Z Z\n")
with open(os.path.join(d,"b.txt"),"w") as f: f.write("ZXY\n")
out=qd.load_data(os.path.join(d,"s.txt"),os.path.join(d,"psi.txt"),os.path.join(d,"tb.txt"),os.path.join(d,"b.txt"))
print("C19", out[0], out[1], out[1].dtype, out[2], out[3], float(np.float32(0.123456789)))
print("C19 refbasis", qd.extract_refbasis_samples(out[0], out[2]))
# ---- C20 sizes & reinit
for T in (ComplexWaveFunction, DensityMatrix):
    s=T(3,2,gpu=False) if T is ComplexWaveFunction else T(3,2,4,gpu=False)
    print("C20",T.__name__,[tuple(p.shape) for p in s.rbm_am.parameters()],[float(p.abs().sum()) for n,p in s.rbm_ph.named_parameters() if 'bias' in n], s.rbm_am.weights_W.data_ptr()!=s.rbm_ph.weights_W.data_ptr() if T is DensityMatrix else s.rbm_am.weights.data_ptr()!=s.rbm_ph.weights.data_ptr())
    old=[p.clone() for net in s.networks for p in getattr(s,net).parameters()]
    s.reinitialize_parameters()
    new=[p for net in s.networks for p in getattr(s,net).parameters()]
    print("   reinit changed weights:", [not torch.equal(a,b) for a,b in zip(old,new) if a.dim()==2])
# DM phase aux bias after training with Adam
s=DensityMatrix(2,2,2,gpu=False)
bases=np.array([list("ZZ"),list("XY"),list("YZ")])
s.fit(data,epochs=3,pos_batch_size=2,input_bases=bases,optimizer=torch.optim.Adam,lr=0.1)
print("C20 aux bias ph after Adam:", s.rbm_ph.aux_bias, "am:", s.rbm_am.aux_bias)
ev=[]
try: s.fit(data,epochs=1,callbacks=[LambdaCallback(on_train_start=lambda x: ev.append(1))])
except ValueError as e: print("C20 refused", e, ev)
# ---- C14
def run(seed):
    qucumber.set_random_seed(seed,cpu=True,gpu=False,quiet=True)
    s=ComplexWaveFunction(2,2,gpu=False); x=s.sample(k=3,num_samples=5)
    np.random.seed(random.randrange(10**6)); np.random.rand(3); random.random()
    s.fit(data,epochs=2,pos_batch_size=2,neg_batch_size=1,input_bases=bases)
    st_=SigmaX().statistics(s,num_samples=6,num_chains=3,burn_in=2)
    return x, [p.clone() for net in s.networks for p in getattr(s,net).parameters()], st_
a=run(7); b=run(7); c=run(8)
print("C14 same:", torch.equal(a[0],b[0]), all(torch.equal(x,y) for x,y in zip(a[1],b[1])), a[2]==b[2], " diff seed differs:", not all(torch.equal(x,y) for x,y in zip(a[1],c[1])))
