from gradref import *
import time, io, contextlib
from qucumber.callbacks import LambdaCallback
def ref_posphase(st, samples, bases):
    """mean over rows of grad of -log p^b(s) (unnormalised), per network, via autograd reference (eps band handled by caller)"""
    out=[]
    for eps in (0.0,1e-8):
        L,logZ,leaves,basesl=ref_losses(st,eps)
        n=st.num_visible
        tot=0
        for s,b in zip(samples,bases if bases is not None else [None]*len(samples)):
            si=int("".join(str(int(x)) for x in s.tolist()),2); bi=basesl.index("".join(b)) if b is not None else 0
            tot=tot+L[si,bi]
        out.append(grads_of(tot/len(samples),leaves))
    return out
def ref_Egrad(st, v):
    """mean over rows of grad of E_lambda(v) = -log p(v) unnormalised for amplitude net"""
    L,logZ,leaves,basesl=ref_losses(st,0.0)
    zi=basesl.index("Z"*st.num_visible)
    tot=0
    for s in v: tot=tot+L[int("".join(str(int(x)) for x in s.tolist()),2),zi]
    return grads_of(tot/len(v),leaves)[0]
class RecSGD(torch.optim.SGD):
    log=None
    def step(self,closure=None):
        ps=[p for g in self.param_groups for p in g['params']]
        before=[p.detach().clone() for p in ps]; grads=[p.grad.detach().clone() for p in ps]; lr=self.param_groups[0]['lr']
        r=super().step(closure); RecSGD.log.append((before,grads,[p.detach().clone() for p in ps],lr)); return r
class CountSched(torch.optim.lr_scheduler.StepLR):
    n=0
    def step(self,*a,**k):
        CountSched.n+=1; return super().step(*a,**k)
t0=time.time(); tot=0; bad=[]; worst=0
data_all=torch.tensor([[0.,1.],[1.,1.],[1.,0.],[0.,1.]]); bases_all=np.array([list("ZZ"),list("XY"),list("ZZ"),list("YZ")])
for Tt,arch in [(PositiveWaveFunction,(2,2)),(ComplexWaveFunction,(2,2)),(DensityMatrix,(2,2,1))]:
  for N,pb,nb,k,lr,ep,sched in itertools.product((2,3,4),(1,2,3),(None,1,3),(0,1,2),(0.1,),(1,2),(False,True)):
    st=Tt(*arch,gpu=False); nets=[getattr(st,x) for x in st.networks]
    for r,net in enumerate(nets): set_flat(net,pattern(nparams(net),r,r))
    if Tt is DensityMatrix: st.rbm_ph.aux_bias.data.zero_()
    torch.manual_seed(N*100+pb*10+k)
    data=data_all[:N]; bases=bases_all[:N] if Tt is not PositiveWaveFunction else None
    RecSGD.log=[]; CountSched.n=0
    batches=[]; chains=[]
    ocbg=st.compute_batch_gradients; ogs=st.rbm_am.gibbs_steps
    st.compute_batch_gradients=lambda kk,*b: (batches.append((kk,[x.clone() if isinstance(x,torch.Tensor) else x.copy() for x in b])), ocbg(kk,*b))[1]
    def wg(kk,init,overwrite=False):
        i0=init.clone(); r=ogs(kk,init,overwrite=overwrite); chains.append((kk,i0,r.clone())); return r
    st.rbm_am.gibbs_steps=wg
    # reference needs params at each step: snapshot via recording optimizer 'before'
    kw=dict(input_bases=bases) if bases is not None else {}
    if sched: kw.update(scheduler=CountSched,scheduler_args=dict(step_size=1,gamma=0.5))
    epochs_run=[]
    st.fit(data,epochs=ep,pos_batch_size=pb,neg_batch_size=nb,k=k,lr=lr,optimizer=RecSGD,callbacks=[LambdaCallback(on_epoch_start=lambda s,e: epochs_run.append(len(RecSGD.log)))],**kw)
    tot+=1; ok=True
    nbatches=math.ceil(N/pb)*ep
    ok&= len(RecSGD.log)==len(batches)==len(chains)==nbatches
    if sched: ok&= CountSched.n==ep+1 or CountSched.n==ep   # StepLR.__init__ calls step() once
    final=[p.detach().clone() for net in nets for p in net.parameters()]
    for t,(before,grads,after,lr_t) in enumerate(RecSGD.log):
        # set a shadow state to 'before' params for the reference
        i=0
        for net in nets:
            for p in net.parameters(): p.data=before[i].clone(); i+=1
        kk,b=batches[t]; pos=b[0]; neg=b[1]; bb=b[2] if len(b)>2 else None
        ck,cin,cout=chains[t]
        ok&= ck==k and kk==k and torch.equal(cin,neg)
        g0,g8=ref_posphase(st,pos,bb)
        negterm=ref_Egrad(st,cout)          # mean over rows = sum/len(neg)
        exp_am=g0[0]-negterm; exp_am8=g8[0]-negterm
        got=torch.cat([g.reshape(-1) for g in grads]); npar_am=nparams(nets[0])
        e_am=(got[:npar_am]-exp_am).abs().max().item(); band=1e-9+1.000001*(exp_am-exp_am8).abs().max().item()
        ok&= e_am<=band
        if len(nets)>1:
            e_ph=(got[npar_am:]-g0[1]).abs().max().item(); band2=1e-9+1.000001*(g0[1]-g8[1]).abs().max().item(); ok&= e_ph<=band2
            worst=max(worst,e_ph)
        worst=max(worst,e_am)
        epoch_i=sum(1 for x in epochs_run if x<=t)-1
        exp_lr=lr*(0.5**epoch_i if sched else 1)
        ok&= abs(lr_t-exp_lr)<1e-15
        ok&= all(torch.equal(a,bf.add(g,alpha=-lr_t)) for a,bf,g in zip(after,before,grads))
    i=0
    for net in nets:
        for p in net.parameters(): p.data=final[i]; i+=1
    if not ok:
        bad.append((Tt.__name__,N,pb,nb,k,ep,sched))
print("C06 fits",tot,"bad",len(bad),"worst",worst,time.time()-t0); print(bad[:5], CountSched.n)
