import sys, os; sys.path[:0]=[os.environ.get('VERIF_REPO','/repo')]
import itertools, time, warnings, numpy as np, torch
from qucumber.observables import SigmaZ, SigmaX, NeighbourInteraction
from qucumber.observables.observable import ObservableBase
from qucumber.nn_states import PositiveWaveFunction
warnings.simplefilter("ignore")
leaves=[('Z',),('N',),('X',)]
scal=[('s',0),('s',-1),('s',2),('s',0.5),('s','f64'),('s',True)]
atoms=leaves+scal
from functools import lru_cache
@lru_cache(None)
def trees(k):
    """all trees with exactly k operator nodes"""
    if k==0: return tuple(atoms)
    out=[]
    for t in trees(k-1): out.append(('neg',t))
    for i in range(k):
        for op in '+-*':
            for l in trees(i):
                for r in trees(k-1-i): out.append((op,l,r))
    return tuple(out)
def has_obs(t): return t[0] in 'ZNX' or (t[0]=='neg' and has_obs(t[1])) or (t[0] in '+-*' and (has_obs(t[1]) or has_obs(t[2])))
for k in range(4):
    ts=trees(k); print(k, len(ts), sum(map(has_obs,ts)))
