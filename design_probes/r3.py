from lib import *
import time
def T(x): return torch.tensor(x,dtype=torch.double)
def tbits(n): return T(bits(n))
def t_rbm_logp(W,b,c,V):
    H=tbits(W.shape[0]); return torch.logsumexp((V@b)[:,None]+(H@c)[None,:]+V@W.t()@H.t(),1)
def t_pur(W,U,b,c,d,V):
    H=tbits(W.shape[0]); A=tbits(U.shape[0])
    ex=(V@b)[:,None,None]+(A@d)[None,:,None]+(H@c)[None,None,:]+(V@W.t()@H.t())[:,None,:]+(V@U.t()@A.t())[:,:,None]
    return torch.logsumexp(ex,2)
def kronU(basis,ud):
    U=torch.ones(1,1,dtype=torch.cdouble)
    for ch in basis: m=ud[ch]; U=torch.kron(U,torch.complex(m[0],m[1]))
    return U
def ref_losses(st, eps):
    """returns tensor L[s_idx, b_idx] = -log p^b(s) (unnormalised, regularised by eps on rotated mixed paths) and logZ, plus param leaves"""
    n=st.num_visible; V=tbits(n)
    leaves=[[p.detach().clone().requires_grad_(True) for p in getattr(st,net).parameters()] for net in st.networks]
    if isinstance(st,DensityMatrix):
        psi=torch.exp(torch.complex(t_pur(*leaves[0],V)/2,t_pur(*leaves[1],V)/2)); rho=psi@psi.conj().t()
        Z=torch.diagonal(rho).real.sum()
    else:
        la=t_rbm_logp(*leaves[0],V)
        ph=t_rbm_logp(*leaves[1],V) if len(leaves)>1 else torch.zeros_like(la)
        psi=torch.exp(torch.complex(la/2,ph/2)); Z=torch.exp(la).sum()
    ud=getattr(st,'unitary_dict',unitaries.create_dict())
    basesl=["".join(b) for b in itertools.product("XYZ",repeat=n)] if len(st.networks)>1 else ["Z"*n]
    L=[]
    for b in basesl:
        U=kronU(b,ud)
        if isinstance(st,DensityMatrix):
            p=torch.diagonal(U@rho@U.conj().t()).real
            L.append(-torch.log(p+(0 if set(b)=={"Z"} else eps)))
        else:
            L.append(-torch.log((U@psi).abs()**2))
    return torch.stack(L,1), torch.log(Z), leaves, basesl
def grads_of(scalar, leaves):
    g=torch.autograd.grad(scalar,[p for net in leaves for p in net],retain_graph=True,allow_unused=True)
    out=[];i=0
    for net in leaves:
        out.append(torch.cat([(g[i+j] if g[i+j] is not None else torch.zeros_like(p)).reshape(-1) for j,p in enumerate(net)])); i+=len(net)
    return out
t0=time.time(); n_cases=0; worst=0; bad=[]
for Tt,arch in [(PositiveWaveFunction,(2,3)),(PositiveWaveFunction,(3,2)),(ComplexWaveFunction,(2,2)),(ComplexWaveFunction,(2,3)),(ComplexWaveFunction,(3,2)),(DensityMatrix,(2,2,1)),(DensityMatrix,(2,1,2)),(DensityMatrix,(3,2,2))]:
    st=Tt(*arch,gpu=False); nets=[getattr(st,x) for x in st.networks]; n=st.num_visible; sp=st.generate_hilbert_space()
    for tag,vals in param_cases([nparams(r) for r in nets], npat=2, dev=(n<3)):
        if tag[0]=='dev' and abs(tag[2][2])>7: continue
        if Tt is DensityMatrix:
            na=st.num_aux; vals[1][-na:]=[0.0]*na
            if tag[0]=='dev' and tag[2][0]==1 and tag[2][1]>=nparams(st.rbm_ph)-na: continue
        for r,v in zip(nets,vals): set_flat(r,v)
        L0,logZ,leaves,basesl=ref_losses(st,0.0)
        L8=ref_losses(st,1e-8) if Tt is DensityMatrix else None
        for bi,b in enumerate(basesl):
            for si in range(2**n):
                g_exact=grads_of(L0[si,bi],leaves)
                if L8 is not None:
                    g_reg=grads_of(L8[0][si,bi],L8[2])
                    band=[1e-9+1.000001*(a-c).abs().max().item() for a,c in zip(g_exact,g_reg)]
                else: band=[1e-9]*len(g_exact)
                got=st.gradient(sp[si], np.array(list(b))) if len(st.networks)>1 else st.gradient(sp[si])
                got2=st.gradient(sp[si:si+1], np.array([list(b)])) if len(st.networks)>1 else st.gradient(sp[si:si+1])
                n_cases+=1
                for k in range(len(st.networks)):
                    scale=max(1,g_exact[k].abs().max().item())
                    e=(got[k]-g_exact[k]).abs().max().item()/scale; e2=(got2[k]-got[k]).abs().max().item()
                    if e>band[k] or e2>1e-12: bad.append((Tt.__name__,arch,tag,b,si,k,e,band[k],e2))
                    worst=max(worst,e)
        # full NLL gradient on a dataset
        idx=[(0,0),(1,len(basesl)-1),(2**n-1,len(basesl)//2),(1,len(basesl)-1)]
        nll=sum(L0[s,b] for s,b in idx)/len(idx)+logZ
        g=grads_of(nll,leaves)
        samples=torch.stack([sp[s] for s,b in idx]); bb=np.array([list(basesl[b]) for s,b in idx])
        got=st.compute_exact_gradients(samples,sp,bases_batch=bb if len(st.networks)>1 else None)
        for k in range(len(st.networks)):
            e=(got[k]-g[k]).abs().max().item()/max(1,g[k].abs().max().item()); worst=max(worst,e)
            if e>1e-7: bad.append(("NLL",Tt.__name__,arch,tag,k,e))
print("C03 single-sample cases",n_cases,"worst rel err",worst,"bad",len(bad),time.time()-t0)
for b in bad[:6]: print(b)
