import sys, os; sys.path[:0]=[os.environ.get('VERIF_REPO','/repo'),'/verif/.deps','/verif/design_probes']
import torch, numpy as np, itertools, time, warnings
from qucumber.nn_states import PositiveWaveFunction, ComplexWaveFunction, DensityMatrix
warnings.simplefilter("ignore")
rng=np.random.default_rng(0)
def setp(rbm, scale, rng):
    for p in rbm.parameters(): p.data = torch.tensor(rng.uniform(-scale,scale,size=tuple(p.shape)))
def T(x): return torch.tensor(x, dtype=torch.double)
def allbits(n): return T(np.array(list(itertools.product([0.,1.],repeat=n))).reshape(2**n,n))
def kronU(basis, ud):
    U=torch.ones(1,1,dtype=torch.cdouble)
    for ch in basis:
        m=ud[ch]; U=torch.kron(U, torch.complex(m[0],m[1]))
    return U
def pur_psi(W,U,b,c,d,V):
    """log p(v,a) marginalised over h; returns (2^nv, 2^na)"""
    H=allbits(W.shape[0]); A=allbits(U.shape[0])
    # exponent[v,a,h]
    ex=(V@b)[:,None,None]+(A@d)[None,:,None]+(H@c)[None,None,:]+(V@W.t()@H.t())[:,None,:]+(V@U.t()@A.t())[:,:,None]
    return torch.logsumexp(ex,2)
def ref_nll_dm(pa,pp,samples,bases,ud,eps=1e-8):
    n=samples.shape[1]; V=allbits(n)
    la=pur_psi(*pa,V); ph=pur_psi(*pp,V)
    psi=torch.exp(torch.complex(la/2,ph/2))
    rho=psi@psi.conj().t()
    Z=torch.diagonal(rho).real.sum()
    tot=0
    for s,b in zip(samples,bases):
        idx=int(sum(int(x)*2**(n-1-i) for i,x in enumerate(s)))
        if all(ch=="Z" for ch in b):
            tot=tot-torch.log(rho[idx,idx].real)     # no regulariser on the all-Z path
        else:
            U=kronU(b,ud); p=(U@rho@U.conj().t())[idx,idx].real
            tot=tot-torch.log(p+eps)
    return tot/len(samples)+torch.log(Z)
d=DensityMatrix(2,3,2,gpu=False); setp(d.rbm_am,1.,rng); setp(d.rbm_ph,1.,rng); d.rbm_ph.aux_bias.data.zero_()
samples=T([[0,1],[1,1],[1,0],[0,0],[1,0]]); bases=np.array([list("XY"),list("ZZ"),list("YZ"),list("XY"),list("ZX")])
pa=[p.detach().clone().requires_grad_(True) for p in d.rbm_am.parameters()]
pp=[p.detach().clone().requires_grad_(True) for p in d.rbm_ph.parameters()]
nll=ref_nll_dm(pa,pp,samples,bases,d.unitary_dict); nll.backward()
ref_am=torch.cat([p.grad.reshape(-1) for p in pa]); ref_ph=torch.cat([p.grad.reshape(-1) for p in pp])
g=d.compute_exact_gradients(samples, d.generate_hilbert_space(), bases_batch=bases)
print("C03 DM am", (g[0]-ref_am).abs().max().item(), "ph", (g[1]-ref_ph).abs().max().item())
print([n for n,_ in d.rbm_am.named_parameters()], "ph aux grad", g[1][-2:], ref_ph[-2:])
# permutation invariance
perm=[3,1,4,0,2]
g2=d.compute_exact_gradients(samples[perm], d.generate_hilbert_space(), bases_batch=bases[perm])
print("perm diff", (g[0]-g2[0]).abs().max().item(), (g[1]-g2[1]).abs().max().item())

# C06 recording optimizer
class Rec(torch.optim.SGD):
    log=[]
    def step(self, closure=None):
        before=[p.detach().clone() for g in self.param_groups for p in g['params']]
        grads=[p.grad.detach().clone() for g in self.param_groups for p in g['params']]
        r=super().step(closure)
        after=[p.detach().clone() for g in self.param_groups for p in g['params']]
        Rec.log.append((before,grads,after, self.param_groups[0]['lr']))
        return r
st=ComplexWaveFunction(2,2,gpu=False)
calls=[]
orig=st.compute_batch_gradients
def wrapped(k,*batch):
    calls.append((k,[b.clone() if isinstance(b,torch.Tensor) else b.copy() for b in batch])); return orig(k,*batch)
st.compute_batch_gradients=wrapped
gs=[]
og=st.rbm_am.gibbs_steps
def wg(k,init,overwrite=False):
    r=og(k,init,overwrite=overwrite); gs.append((k,init.clone(),r.clone())); return r
st.rbm_am.gibbs_steps=wg
st.fit(samples, epochs=1, pos_batch_size=2, neg_batch_size=3, k=2, lr=0.1, input_bases=bases, optimizer=Rec)
print(len(Rec.log), len(calls), len(gs), [c[1][0].shape[0] for c in calls], [c[1][1].shape[0] for c in calls])
before,grads,after,lr=Rec.log[0]
print("sgd update exact:", all(torch.equal(a, b-lr*g) for a,b,g in zip(after,before,grads)), [tuple(g.shape) for g in grads])
