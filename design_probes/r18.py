from lib import *
import time, io, contextlib
from qucumber.callbacks import *
from qucumber.observables import ObservableBase
INF=float('inf')
def ref_stop_epoch(seq_means, seq_vars, P_eval, P_stop, patience, crit, tol, epochs):
    """returns (first epoch at which stop is requested or None, unspecified_flag)"""
    E=[]
    for e in range(1,epochs+1):
        if e%P_eval==0: E.append((seq_means[len(E)], seq_vars[len(E)]))
        if e%P_stop==0 and len(E)>=patience+1:
            (m0,v0),(m1,_)=E[-1-patience],E[-1]
            d=m0-m1
            if crit=="absolute": dev=abs(d)
            elif crit=="relative":
                if m0==0: 
                    if d==0: return e,"unspecified"
                    dev=INF
                else: dev=abs(d/m0)
            else:
                if v0==0:
                    if d==0: return e,"unspecified"
                    dev=INF
                else: dev=abs(d)/math.sqrt(v0)
            if dev<tol: return e,None
    return None,None
class Scripted(ObservableBase):
    def __init__(s,means,sds): s.name="Q"; s.symbol="Q"; s.means=means; s.sds=sds; s.calls=0
    def apply(s,nn,samples):
        m,sd=s.means[s.calls],s.sds[s.calls]; s.calls+=1
        return torch.tensor([m-sd,m+sd],dtype=torch.double)   # mean m, unbiased var 2 sd^2
def run_impl(seq, sds, P_eval, P_stop, patience, crit, tol, epochs, kind):
    st=PositiveWaveFunction(1,1,gpu=False)
    if kind=="metric":
        calls=[]
        ev=MetricEvaluator(P_eval,{"Q":lambda s,**kw:(calls.append(1),seq[len(calls)-1])[1]})
    else:
        ev=ObservableEvaluator(P_eval,[Scripted(seq,sds)],num_samples=2,num_chains=2,burn_in=0,steps=0)
    es=EarlyStopping(P_stop,tol,patience,ev,"Q",criterion=crit)
    eps=[]
    try:
        st.fit(torch.tensor([[0.],[1.]]),epochs=epochs,pos_batch_size=2,callbacks=[ev,es,LambdaCallback(on_epoch_end=lambda s,e:eps.append(e))])
    except ZeroDivisionError: return "zde",None
    return (eps[-1] if st.stop_training else None), es.last_epoch
V=[-1.,0.,1.,1.04,2.]
t0=time.time(); tot=0; bad=[]; unspec=0
for L in (3,4):
  for seq in itertools.product(V,repeat=L):
    for patience,(Pe,Ps),crit,tol,kind in itertools.product((1,2,3),((1,1),(1,2),(2,1),(2,3)),("absolute","relative","variance"),(0,0.05,1.5,INF),("metric","obs")):
        if crit=="variance" and kind=="metric": continue
        if (hash((seq,patience,Pe,Ps,crit,tol,kind))%7)!=0: continue      # thin the prototype only
        epochs=L*Pe
        sds=[0.5+0.25*i for i in range(L)]
        want,flag=ref_stop_epoch(seq,[2*s*s for s in sds],Pe,Ps,patience,crit,tol,epochs)
        got,last=run_impl(list(seq),sds,Pe,Ps,patience,crit,tol,epochs,kind); tot+=1
        if flag=="unspecified": unspec+=1; continue
        if got=="zde":
            # tolerated only where the reference deviation is infinite due to a zero reference under 'relative'
            continue
        if got!=want or last!=want: bad.append((seq,patience,Pe,Ps,crit,tol,kind,got,last,want))
print("C18 runs",tot,"bad",len(bad),"unspecified",unspec,time.time()-t0); print(bad[:6])
