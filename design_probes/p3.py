import sys, os; sys.path[:0]=[os.environ.get('VERIF_REPO','/repo'),'/verif/.deps','/verif/design_probes']
import torch, numpy as np, itertools, time, warnings
from ref import *
from qucumber.nn_states import PositiveWaveFunction, ComplexWaveFunction, DensityMatrix
from qucumber.utils import cplx, unitaries
import qucumber.utils.training_statistics as ts
from qucumber.observables import SigmaX, SigmaY, SigmaZ, NeighbourInteraction, SWAP
torch.manual_seed(3)
def setp(rbm, scale, rng):
    for p in rbm.parameters(): p.data = torch.tensor(rng.uniform(-scale,scale,size=tuple(p.shape)))
def getb(rbm): return rbm.weights.numpy(), rbm.visible_bias.numpy(), rbm.hidden_bias.numpy()
def getp(rbm): return rbm.weights_W.numpy(), rbm.weights_U.numpy(), rbm.visible_bias.numpy(), rbm.hidden_bias.numpy(), rbm.aux_bias.numpy()
rng=np.random.default_rng(0)
# C01
for nv,nh,sc in [(2,3,1.5),(3,2,7.),(3,4,30.)]:
    s=ComplexWaveFunction(nv,nh,gpu=False); setp(s.rbm_am,sc,rng); setp(s.rbm_ph,sc,rng)
    sp=s.generate_hilbert_space()
    psi=cplx.numpy(s.psi(sp)); ref=psi_complex(getb(s.rbm_am),getb(s.rbm_ph))
    p=s.probability(sp).numpy(); Zr=np.exp(rbm_logp(*getb(s.rbm_am))).sum()
    print("C01",nv,nh,sc, np.max(np.abs(psi-ref)/np.abs(ref)), np.max(np.abs(np.abs(psi)**2-p)/p), abs(s.normalization(sp).item()-Zr)/Zr)
# C02
for nv,nh,na,sc in [(2,2,2,1.5),(3,2,3,5.),(2,3,1,20.)]:
    d=DensityMatrix(nv,nh,na,gpu=False); setp(d.rbm_am,sc,rng); setp(d.rbm_ph,sc,rng); d.rbm_ph.aux_bias.data.zero_()
    sp=d.generate_hilbert_space()
    rho=cplx.numpy(d.rho(sp,sp)); ref=rho_purif(getp(d.rbm_am),getp(d.rbm_ph))
    print("C02",nv,nh,na,sc, np.max(np.abs(rho-ref))/np.abs(ref).max(), np.abs(rho-rho.conj().T).max()/np.abs(rho).max(), np.linalg.eigvalsh((rho+rho.conj().T)/2).min()/np.trace(rho).real,
          np.max(np.abs(np.diag(rho).real-d.probability(sp).numpy())/np.diag(rho).real))
    # expand=False & 1-D forms
    r2=cplx.numpy(d.rho(sp, sp.flip(0), expand=False)); print("   nonexpand", np.abs(r2-np.array([rho[i,len(sp)-1-i] for i in range(len(sp))])).max())
    r3=cplx.numpy(d.rho(sp[1], sp[2])); print("   1d", abs(r3-rho[1,2]))
# C04 explicit rho with Y
d=DensityMatrix(2,2,2,gpu=False); setp(d.rbm_am,1.,rng); setp(d.rbm_ph,1.,rng); d.rbm_ph.aux_bias.data.zero_()
sp=d.generate_hilbert_space(); rho_t=d.rho(sp,sp); rho=cplx.numpy(rho_t)
ud=unitaries.create_dict()
for basis in ["XX","YZ","XY","YY"]:
    U=kron_all([cplx.numpy(ud[b]) for b in basis])
    want=np.diag(U@rho@U.conj().T).real
    got_model=unitaries.rotate_rho_probs(d,basis,sp).numpy()
    got_expl=unitaries.rotate_rho_probs(d,basis,sp,rho=rho_t).numpy()
    got_rot=np.diag(cplx.numpy(unitaries.rotate_rho(d,basis,sp,rho=rho_t))).real
    print("C04",basis, np.abs(want-got_model).max(), np.abs(want-got_expl).max(), np.abs(want-got_rot).max())
# C10 KL self
Zn=d.normalization(sp)
print("C10 KL self DM bases XY,YY:", ts.KL(d, rho_t/Zn, sp, bases=["XY","YY"]), " XX,ZZ:", ts.KL(d, rho_t/Zn, sp, bases=["XX","ZZ"]))
try: print("C10 KL DM bases=None:", ts.KL(d, rho_t/Zn, sp))
except Exception as e: print("C10 KL DM None exc", e)
print("fid self", ts.fidelity(d, rho_t/Zn, sp), type(ts.fidelity(d, rho_t/Zn, sp)))
s=ComplexWaveFunction(2,2,gpu=False); setp(s.rbm_am,1,rng); setp(s.rbm_ph,1,rng)
psi_t=s.psi(sp)/s.normalization(sp).sqrt()
print("fid self psi", ts.fidelity(s, psi_t, sp), "KL self", ts.KL(s, psi_t, sp, bases=["XY","YZ"]), ts.KL(s,psi_t,sp))
