import sys, os; sys.path[:0]=[os.environ.get('VERIF_REPO','/repo'),'/verif/.deps','/verif/design_probes']
import torch, numpy as np, itertools, time, warnings, tempfile, os
from torch.overrides import TorchFunctionMode
from qucumber.nn_states import PositiveWaveFunction, ComplexWaveFunction, DensityMatrix
from qucumber.callbacks import *
warnings.simplefilter("ignore")
class Env(TorchFunctionMode):
    def __init__(s, perms, ints): super().__init__(); s.perms=list(perms); s.ints=list(ints); s.calls=[]
    def __torch_function__(s, func, types, args=(), kwargs=None):
        kwargs=kwargs or {}; name=getattr(func,'__name__','')
        if name=='randperm':
            s.calls.append(('randperm',args[0])); return torch.tensor(s.perms.pop(0),dtype=torch.long)
        if name=='randint':
            size=kwargs.get('size'); s.calls.append(('randint',args,size)); 
            return torch.tensor(s.ints.pop(0),dtype=torch.long).reshape(size)
        return func(*args,**kwargs)
st=ComplexWaveFunction(2,2,gpu=False)
data=[[0,1],[1,1],[1,0],[0,0]]; bases=np.array([list("ZZ"),list("XY"),list("ZZ"),list("YZ")])
seen=[]
orig=st.compute_batch_gradients
st.compute_batch_gradients=lambda k,*b: (seen.append([x.clone() if isinstance(x,torch.Tensor) else x.copy() for x in b]), orig(k,*b))[1]
with Env(perms=[[2,0,3,1]], ints=[[1,0,1,1]]) as e:
    st.fit(np.array(data), epochs=1, pos_batch_size=3, neg_batch_size=2, input_bases=bases)
print(e.calls)
for b in seen: print([x.tolist() for x in b])
# list input
st.fit(data, epochs=1, pos_batch_size=3, input_bases=bases); print("list data ok")
# C17 ModelSaver dict metadata complex
d=tempfile.mkdtemp()
ms=ModelSaver(1, d, "m_{}.pt", metadata={"note":"x"})
try:
    st.fit(torch.tensor(data,dtype=torch.double), epochs=2, pos_batch_size=4, input_bases=bases, callbacks=[ms]); print("ModelSaver ok", os.listdir(d))
except Exception as ex: print("ModelSaver FAIL:", type(ex).__name__, ex, os.listdir(d))
# C11 metadata kinds
p=os.path.join(d,"z.pt")
st.save(p, {"nested":{"x":[1,2.5,"s"]}, "t":torch.arange(3), "n":None})
sd=torch.load(p); print({k:(v if k not in st.networks else '...') for k,v in sd.items() if k!='unitary_dict'})
