from lib import *
import time
import qucumber.utils.training_statistics as ts
from qucumber.utils.unitaries import create_dict
rng=np.random.default_rng(2)
def enc(z): z=np.asarray(z,dtype=complex); return torch.tensor(np.stack([z.real,z.imag]),dtype=torch.double)
udn={k:cplx.numpy(v) for k,v in create_dict().items()}
def msqrt(A):
    w,v=np.linalg.eigh((A+A.conj().T)/2); return (v*np.sqrt(np.clip(w,0,None)))@v.conj().T
def kl(p,q): 
    m=p>1e-300; return float((p[m]*np.log(p[m]/q[m])).sum())
t0=time.time(); tot=0; bad={}; worst=0
def rec(key,err,tol=1e-9):
    global worst
    if not (err<=tol): bad[key]=bad.get(key,0)+1
    else: worst=max(worst,err)
for Tt in (PositiveWaveFunction,ComplexWaveFunction,DensityMatrix):
  for n in (1,2):
    st=Tt(n,2,gpu=False); nets=[getattr(st,x) for x in st.networks]
    for q in range(2):
        for r,net in enumerate(nets): set_flat(net,pattern(nparams(net),q,r))
        if Tt is DensityMatrix: st.rbm_ph.aux_bias.data.zero_()
        sp=st.generate_hilbert_space(); D=2**n; Z=st.normalization(sp).item()
        if Tt is DensityMatrix:
            R=cplx.numpy(st.rho(sp,sp))/Z
            g=rng.normal(size=D)+1j*rng.normal(size=D); g/=np.linalg.norm(g)
            M=rng.normal(size=(D,D))+1j*rng.normal(size=(D,D)); S=M@M.conj().T; S/=np.trace(S).real
            targets={"own":R,"mixed":np.eye(D)/D,"proj":np.outer(g,g.conj()),"generic":S}
        else:
            psi=cplx.numpy(st.psi(sp))/math.sqrt(Z); R=np.outer(psi,psi.conj())
            g=rng.normal(size=D)+1j*rng.normal(size=D); g/=np.linalg.norm(g)
            targets={"own":psi,"own*phase":psi*np.exp(0.7j),"e0":np.eye(D)[0].astype(complex),"unif":np.ones(D,complex)/math.sqrt(D),"generic":g}
        strings=["".join(b) for b in itertools.product("XYZ",repeat=n)]
        baseslists=[None]+([[s] for s in strings]+[[a,b] for a in strings for b in strings if a<b] if Tt is not PositiveWaveFunction else [])
        for tn,t in targets.items():
            tot+=1
            f=ts.fidelity(st,enc(t),sp)
            if Tt is DensityMatrix:
                sr=msqrt(R); want=np.trace(msqrt(sr@t@sr)).real**2
            else: want=abs(np.vdot(t,psi))**2
            rec("fid_type",0 if isinstance(f,float) else 1); rec("fid",abs(f-want),1e-7 if Tt is DensityMatrix else 1e-9); rec("fid_range",0 if -1e-9<=f<=1+1e-7 else 1)
            if tn.startswith("own"): rec("fid_self",abs(f-1),1e-7)
            for bl in baseslists:
                for form in ("tensor","dict"):
                    if bl is None and form=="dict": continue
                    want=0
                    for b in (bl or ["Z"*n]):
                        U=kron_all([udn[c] for c in b])
                        pt=np.diag(U@t@U.conj().T).real if t.ndim==2 else np.abs(U@t)**2
                        pm=np.diag(U@R@U.conj().T).real
                        want+=kl(pt,pm)
                    want/=len(bl or [1])
                    if form=="dict":
                        tgt={b:enc(kron_all([udn[c] for c in b])@t@(kron_all([udn[c] for c in b]).conj().T) if t.ndim==2 else kron_all([udn[c] for c in b])@t) for b in bl}
                        got=ts.KL(st,tgt,sp,bases=bl)
                    else: got=ts.KL(st,enc(t),sp,bases=bl)
                    tot+=1
                    key="KL"+("_none" if bl is None else "")+("_"+Tt.__name__[:3])+("_Y" if bl and any("Y" in b for b in bl) and form=="tensor" else "")
                    rec(key+"_type",0 if isinstance(got,float) else 1); rec(key,abs(got-want)); 
                    if tn=="own": rec(key+"_self",abs(got))
                    rec(key+"_nonneg",max(0,-got))
        # NLL
        rows=[(0,"Z"*n),(D-1,strings[0]),(1%D,strings[-2]),(0,"Z"*n)]
        for with_bases in ((False,True) if Tt is not PositiveWaveFunction else (False,"allZ")):
            sam=torch.stack([sp[i] for i,_ in rows]); 
            if with_bases is True: bb=np.array([list(b) for _,b in rows])
            elif with_bases=="allZ": bb=np.array([list("Z"*n)]*len(rows))
            else: bb=None
            want=0
            for i,b in rows:
                b=b if with_bases is True else "Z"*n
                U=kron_all([udn[c] for c in b]); want-=math.log(np.diag(U@R@U.conj().T).real[i])
            want/=len(rows)
            got=ts.NLL(st,sam,sp,sample_bases=bb); tot+=1
            rec("NLL_type"+("_bases" if bb is not None else ""),0 if isinstance(got,float) else 1); rec("NLL",abs(float(got)-want))
print("C10 evaluations",tot,"worst",worst,"bad",bad,time.time()-t0)
