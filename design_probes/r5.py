from lib import *
import time
from torch.overrides import TorchFunctionMode
class Tape(TorchFunctionMode):
    def __init__(s,prefix): super().__init__(); s.prefix=list(prefix); s.points=[]; s.w=1.0; s.choices=[]
    def __torch_function__(s,func,types,args=(),kwargs=None):
        kwargs=kwargs or {}
        if getattr(func,'__name__','') in ('bernoulli',):
            p=args[0]; out=kwargs.get('out'); n=p.numel(); i=len(s.points)
            c=s.prefix[i] if i<len(s.prefix) else 0
            assert 0<=c<2**n
            s.points.append(2**n); s.choices.append(c)
            pv=p.detach().clone().reshape(-1)
            x=torch.tensor([(c>>(n-1-j))&1 for j in range(n)],dtype=p.dtype)
            s.w*=torch.where(x>0,pv,1-pv).prod().item()
            x=x.reshape(p.shape)
            if out is not None: out.copy_(x); return out
            return x
        return func(*args,**kwargs)
def explore(body):
    out=[]; stack=[[]]; execs=0
    rs0=torch.get_rng_state().clone()
    while stack:
        pre=stack.pop(); t=Tape(pre)
        with t: r=body()
        execs+=1; out.append((r,t.w))
        for i in range(len(pre),len(t.points)):
            for alt in range(1,t.points[i]): stack.append(t.choices[:i]+[alt])
    assert torch.equal(rs0,torch.get_rng_state()), "unowned randomness"
    return out,execs
def idx(v): return int("".join(str(int(x)) for x in v.tolist()),2)
def ref_kernel_binary(W,b,c):
    nh,nv=W.shape; V,H=bits(nv),bits(nh)
    J=np.exp((V@b)[:,None]+(H@c)[None,:]+V@W.T@H.T)      # joint (v,h)
    Phv=J/J.sum(1,keepdims=True); Pvh=(J/J.sum(0,keepdims=True)).T   # p(h|v)[v,h], p(v|h)[h,v]
    return Phv@Pvh, J.sum(1)
def ref_kernel_pur(W,U,b,c,d):
    nh,nv=W.shape; na=U.shape[0]; V,H,A=bits(nv),bits(nh),bits(na)
    J=np.exp((V@b)[:,None,None]+(H@c)[None,:,None]+(A@d)[None,None,:]+(V@W.T@H.T)[:,:,None]+(V@U.T@A.T)[:,None,:])
    Pha=J.reshape(len(V),-1); Pha=Pha/Pha.sum(1,keepdims=True)
    Pv=J.reshape(len(V),-1); Pv=(Pv/Pv.sum(0,keepdims=True)).T
    return Pha@Pv, J.sum((1,2))
t0=time.time(); tot=0; worst=0
for Tt,arch,K in [(PositiveWaveFunction,(2,2),3),(ComplexWaveFunction,(2,3),2),(PositiveWaveFunction,(3,2),2),(DensityMatrix,(2,2,1),2),(DensityMatrix,(2,1,2),2),(DensityMatrix,(1,2,2),2)]:
    st=Tt(*arch,gpu=False); nets=[getattr(st,x) for x in st.networks]
    for q in range(2):
        for r,net in enumerate(nets): set_flat(net,pattern(nparams(net),q,r))
        if Tt is DensityMatrix: Tm,pu=ref_kernel_pur(*get_p(st.rbm_am))
        else: Tm,pu=ref_kernel_binary(*get_b(st.rbm_am))
        sp=st.generate_hilbert_space(); D=len(sp)
        pi=st.probability(sp).numpy(); pi/=pi.sum()
        worst=max(worst,np.abs(pi@Tm-pi).max(), np.abs(pi[:,None]*Tm-(pi[:,None]*Tm).T).max(), np.abs(pu/pu.sum()-pi).max())
        for k in range(0,K+1):
            Tk=np.linalg.matrix_power(Tm,k)
            for i,v0 in enumerate(sp):
                for ow in (False,True):
                    start=v0.clone().unsqueeze(0); keep=start.clone()
                    def body():
                        start.copy_(keep); r=st.sample(k=k,initial_state=start,overwrite=ow)
                        assert r.shape==start.shape and ((r==0)|(r==1)).all()
                        assert (r.data_ptr()==start.data_ptr())==ow or k==0 and not ow and r.data_ptr()!=start.data_ptr()
                        if not ow: assert torch.equal(start,keep)
                        else: assert torch.equal(start,r)
                        return idx(r[0])
                    res,ex=explore(body); tot+=ex
                    law=np.zeros(D)
                    for r,w in res: law[r]+=w
                    worst=max(worst,np.abs(law-Tk[i]).max())
        # uniform random start, k=1
        res,ex=explore(lambda: idx(st.sample(k=1,num_samples=1)[0])); tot+=ex
        law=np.zeros(D)
        for r,w in res: law[r]+=w
        worst=max(worst,np.abs(law-(np.ones(D)/D)@Tm).max())
        # continued chain: k1=1 then k2=1 with overwrite
        if arch[0]<=2:
            for i,v0 in enumerate(sp):
                def body2():
                    a=st.sample(k=1,initial_state=v0.clone().unsqueeze(0)); b=st.sample(k=1,initial_state=a,overwrite=True); return idx(b[0])
                res,ex=explore(body2); tot+=ex; law=np.zeros(D)
                for r,w in res: law[r]+=w
                worst=max(worst,np.abs(law-np.linalg.matrix_power(Tm,2)[i]).max())
print("C05 executions",tot,"worst",worst,time.time()-t0)
