from lib import *
import time, tempfile, os, hashlib, copy, shutil
from qucumber.callbacks import ModelSaver
def H(t): return hashlib.sha256(t.detach().cpu().contiguous().numpy().tobytes()+str(tuple(t.shape)).encode()).hexdigest()[:10]
def abs_model(m): return (tuple((net,tuple((n,H(p)) for n,p in getattr(m,net).named_parameters())) for net in m.networks), tuple(sorted((k,H(v)) for k,v in getattr(m,'unitary_dict',{}).items())) if hasattr(m,'unitary_dict') and 'unitary_dict' in m.__dict__ else None)
def canon(x):
    if isinstance(x,torch.Tensor): return ('T',H(x))
    if isinstance(x,dict): return ('D',tuple(sorted((k,canon(v)) for k,v in x.items())))
    if isinstance(x,(list,tuple)): return ('L',tuple(canon(v) for v in x))
    return ('V',repr(x))
def abs_file(path, networks):
    if not os.path.exists(path): return None
    sd=torch.load(path)
    nets=tuple((net,tuple((n,H(p)) for n,p in sd[net].items())) for net in networks)
    ud=tuple(sorted((k,H(v)) for k,v in sd['unitary_dict'].items())) if 'unitary_dict' in sd else None
    md=canon({k:v for k,v in sd.items() if k not in networks and k!='unitary_dict'})
    return (nets,ud,md)
MDS=lambda: [None,{},{"a":1},{"nested":{"x":[1,2.5,"s"]}},{"t":torch.arange(3)}]
def mk(Tt):
    if Tt is PositiveWaveFunction: return Tt(2,3,gpu=False)
    if Tt is ComplexWaveFunction: return Tt(2,3,gpu=False)
    return Tt(2,1,3,gpu=False)
data=torch.tensor([[0.,1.],[1.,1.],[1.,0.]]); bases=np.array([list("ZZ"),list("XY"),list("ZZ")])
OPS=[("rand",0),("rand",1),("train",0),("addU",0)]+[("save",m,f,k) for m in (0,1) for f in (0,1) for k in range(5)]+[("load",m,f) for m in (0,1) for f in (0,1)]+[("autoload",f) for f in (0,1)]+[("badkey",0,key) for key in ("rbm_am","rbm_ph","unitary_dict")]
t0=time.time(); tot=0; bad=[]; states=set()
for Tt in (PositiveWaveFunction,ComplexWaveFunction,DensityMatrix):
  for hist in itertools.chain(itertools.product(OPS,repeat=1),itertools.product(OPS,repeat=2), (h for h in itertools.product(OPS,repeat=3) if hash(h)%9==0)):
    d=tempfile.mkdtemp(dir=None); torch.manual_seed(1)
    M=[mk(Tt),mk(Tt)]; mds=MDS(); F=[os.path.join(d,"f0.pt"),os.path.join(d,"f1.pt")]
    refF=[None,None]; ok=True; why=None
    for op in hist:
        pre=[abs_model(m) for m in M]; premd=[canon(x) for x in mds]; preF=[abs_file(f,M[0].networks) for f in F]
        try:
            if op[0]=="rand":
                M[op[1]].reinitialize_parameters()
                for r,net in enumerate(M[op[1]].networks): 
                    rb=getattr(M[op[1]],net); rb.visible_bias.data+=0.3*(r+1)
            elif op[0]=="train":
                kw=dict(input_bases=bases) if Tt is not PositiveWaveFunction else {}
                M[0].fit(data,epochs=1,pos_batch_size=2,**kw)
            elif op[0]=="addU":
                if hasattr(M[0],'unitary_dict') and 'unitary_dict' in M[0].__dict__: M[0].unitary_dict["H"]=torch.tensor([[[1.,1.],[1.,-1.]],[[0.,0.],[0.,0.]]],dtype=torch.double)/math.sqrt(2)
            elif op[0]=="save":
                _,m,f,k=op; M[m].save(F[f],mds[k])
                now=abs_file(F[f],M[m].networks)
                if now!=(abs_model(M[m])[0],abs_model(M[m])[1],canon(mds[k] or {})): ok=False; why=("file content",op)
                if [abs_model(x) for x in M]!=pre or [canon(x) for x in mds]!=premd: ok=False; why=("save side effect",op)
            elif op[0]=="load":
                _,m,f=op
                if preF[f] is None: continue
                M[m].load(F[f]); a=abs_model(M[m])
                if a[0]!=preF[f][0] or (a[1] is not None and a[1]!=preF[f][1]): ok=False; why=("load mismatch",op)
            elif op[0]=="autoload":
                f=op[1]
                if preF[f] is None: continue
                M[1]=Tt.autoload(F[f],gpu=False); a=abs_model(M[1])
                if a[0]!=preF[f][0] or (a[1] is not None and a[1]!=preF[f][1]): ok=False; why=("autoload mismatch",op)
            elif op[0]=="badkey":
                key=op[2]
                if key in M[0].networks or (key=="unitary_dict" and abs_model(M[0])[1] is not None):
                    try: M[0].save(F[0],{key:1}); ok=False; why=("reserved key accepted",op)
                    except ValueError: pass
                    if abs_file(F[0],M[0].networks)!=preF[0]: ok=False; why=("reserved key changed file",op)
        except Exception as e:
            ok=False; why=("exception",op,type(e).__name__,str(e)[:60])
        if not ok: break
        states.add((Tt.__name__,tuple(abs_model(m) for m in M),tuple(abs_file(f,M[0].networks) for f in F)))
    tot+=1
    if not ok: bad.append((Tt.__name__,hist,why))
    shutil.rmtree(d)
from collections import Counter
print("C11 histories",tot,"distinct states",len(states),"bad",len(bad),time.time()-t0)
print(Counter((b[0],b[2][0],b[2][2] if b[2][0]=="exception" else "") for b in bad).most_common(8))
for b in bad[:3]: print(b)
