from lib import *
import time
def enc(z): z=np.asarray(z,dtype=complex); return torch.tensor(np.stack([z.real,z.imag]),dtype=torch.double)
def dec(t): return cplx.numpy(t)
G=[a+1j*b for a in (-2,-1,0,1,3) for b in (-2,-1,0,1,3)]
def fill(shape,off): 
    n=int(np.prod(shape)) if shape else 1
    return np.array([G[(off+7*i)%25] for i in range(n)],dtype=complex).reshape(shape)
tot=0; bad=[]
def chk(name,got,want,exact=True):
    global tot; tot+=1
    try:
        g=dec(got) if (isinstance(got,torch.Tensor) and np.iscomplexobj(want)) else np.asarray(got)
        ok=g.shape==np.shape(want) and (np.array_equal(g,want) if exact else np.allclose(g,want,rtol=1e-12,atol=1e-12))
    except Exception as e: ok=False
    if not ok: bad.append(name)
def must_raise(name,f):
    global tot; tot+=1
    try: f(); bad.append(name+" not rejected")
    except Exception: pass
t0=time.time()
for x in G:
    for y in G:
        X,Y=enc(x),enc(y)
        chk("s*s",cplx.scalar_mult(X,Y),np.asarray(x*y)); chk("inner ss",cplx.inner_prod(X,Y),np.asarray(np.conj(x)*y))
        chk("conj",cplx.conj(X),np.asarray(np.conj(x))); chk("abs",cplx.absolute_value(X),np.asarray(abs(x)),exact=False)
        if y!=0:
            chk("div",cplx.elementwise_division(X,Y),np.asarray(x/y),exact=False); chk("inv",cplx.inverse(Y),np.asarray(1/y),exact=False); chk("sdiv",cplx.scalar_divide(X,Y),np.asarray(x/y),exact=False)
        chk("norm",cplx.norm(X),np.asarray(abs(x)),exact=False); chk("norm_sqr",cplx.norm_sqr(X),np.asarray((x*np.conj(x)).real))
shapes1=[(1,),(2,),(3,)]; shapes2=[(r,c) for r in (1,2,3) for c in (1,2,3)]
for off in (0,3,11):
    for s in shapes1:
        a,b=fill(s,off),fill(s,off+5); sc=G[(off+4)%25]
        chk("s*v",cplx.scalar_mult(enc(sc),enc(a)),sc*a); chk("v*s",cplx.scalar_mult(enc(a),enc(sc)),sc*a); chk("v.v",cplx.elementwise_mult(enc(a),enc(b)),a*b)
        chk("inner vv",cplx.inner_prod(enc(a),enc(b)),np.asarray(np.vdot(a,b))); chk("norm v",cplx.norm(enc(a)),np.asarray(np.linalg.norm(a)),exact=False)
        chk("conjugate v",cplx.conjugate(enc(a)),a.conj())
        for s2 in shapes1:
            c=fill(s2,off+2); chk("outer",cplx.outer_prod(enc(a),enc(c)),np.outer(a,c.conj()))
        o=torch.zeros(2,*s,dtype=torch.double); r=cplx.scalar_mult(enc(a),enc(b),out=o); chk("out",o,a*b); 
        A_=enc(a); must_raise("alias x",lambda: cplx.scalar_mult(A_,enc(b),out=A_)); B_=enc(b); must_raise("alias y",lambda: cplx.scalar_mult(enc(a),B_,out=B_))
    for s in shapes2:
        A=fill(s,off); sc=G[(off+9)%25]
        chk("s*M",cplx.scalar_mult(enc(sc),enc(A)),sc*A); chk("conjugate M",cplx.conjugate(enc(A)),A.conj().T); chk("conj M",cplx.conj(enc(A)),A.conj()); chk("make np",cplx.make_complex(A),A)
        chk("real",cplx.real(enc(A)),A.real); chk("imag",cplx.imag(enc(A)),A.imag); chk("numpy",cplx.numpy(enc(A)),A)
        for s2 in shapes2:
            B=fill(s2,off+1)
            chk("kron",cplx.kronecker_prod(enc(A),enc(B)),np.kron(A,B))
            if s[1]==s2[0]: chk("matmul",cplx.matmul(enc(A),enc(B)),A@B); chk("einsum mm",cplx.einsum("ij,jk->ik",enc(A),enc(B)),A@B); chk("einsum re",cplx.einsum("ij,jk->ik",enc(A),enc(B),imag_part=False),(A@B).real); chk("einsum im",cplx.einsum("ij,jk->ik",enc(A),enc(B),real_part=False),(A@B).imag)
        for s1 in shapes1:
            if s[1]==s1[0]: v=fill(s1,off+2); chk("matvec",cplx.matmul(enc(A),enc(v)),A@v)
        T3=fill((2,)+s,off+6); chk("conjugate r3",cplx.conjugate(enc(T3)),T3.conj().transpose(1,0,2))
    for (e,sa,sb) in [("ib,ibg->bg",(2,3),(2,3,4)),("b,bg->g",(3,),(3,4)),("ijb,ijbg->bg",(2,2,3),(2,2,3,2)),("c...j,...k->c...jk",None,None)]:
        if sa is None: continue
        a,b=fill(sa,off),fill(sb,off+3); chk("einsum "+e,cplx.einsum(e,enc(a),enc(b)),np.einsum(e,a,b))
must_raise("inner rank",lambda: cplx.inner_prod(enc(fill((2,),0)),enc(fill((2,2),0)))); must_raise("outer rank",lambda: cplx.outer_prod(enc(fill((2,2),0)),enc(fill((2,),0))))
must_raise("kron rank",lambda: cplx.kronecker_prod(enc(fill((2,),0)),enc(fill((2,2),0)))); must_raise("div shape",lambda: cplx.elementwise_division(enc(fill((2,),0)),enc(fill((3,),1))))
xs=np.array([-700.,-3.,0.,0.5,40.,700.]); ys=np.array([0.,1.,-2.,3.1,0.3,-1.]); z=xs+1j*ys
chk("sigmoid",cplx.sigmoid(torch.tensor(xs),torch.tensor(ys)),1/(1+np.exp(-z)),exact=False)
I=cplx.I; chk("I*x",cplx.scalar_mult(enc(fill((3,),2)),I),1j*fill((3,),2))
from collections import Counter
print("C15 calls",tot,"bad",Counter(bad),time.time()-t0)
