"""scratch helpers shared by the second wave of design probes"""
import sys, os
REPO=os.environ.get('VERIF_REPO','/repo')
sys.path[:0]=[REPO,'/verif/.deps','/verif/design_probes']
import itertools, math, warnings, numpy as np, torch
warnings.simplefilter("ignore")
torch.set_num_threads(1)
from qucumber.nn_states import PositiveWaveFunction, ComplexWaveFunction, DensityMatrix
from qucumber.rbm import BinaryRBM, PurificationRBM
from qucumber.utils import cplx, unitaries

A5=[-1.7,-0.6,0.25,0.9,1.4]
EXT=[-30.,-7.,0.,7.,30.]
def bits(n): return np.array(list(itertools.product([0.,1.],repeat=n))).reshape(2**n,n)
def nparams(rbm): return sum(p.numel() for p in rbm.parameters())
def set_flat(rbm, vals):
    i=0
    for p in rbm.parameters():
        n=p.numel(); p.data=torch.tensor(np.array(vals[i:i+n]).reshape(tuple(p.shape)),dtype=torch.double); i+=n
def pattern(n, q, r=0):
    s=[1,2,3,4][q%4]; o=q
    return [A5[(s*t+o+2*r)%5] for t in range(n)]
def param_cases(rbm_sizes, npat=3, dev=True):
    """yield list-of-flat-vectors (one per network): patterns and 1-deviations"""
    for q in range(npat):
        base=[pattern(n,q,r) for r,n in enumerate(rbm_sizes)]
        yield ('pat',q,None), base
        if dev:
            for r,n in enumerate(rbm_sizes):
                for t in range(n):
                    for x in EXT:
                        b=[list(v) for v in base]; b[r][t]=x
                        yield ('dev',q,(r,t,x)), b
def get_b(rbm): return rbm.weights.detach().numpy(), rbm.visible_bias.detach().numpy(), rbm.hidden_bias.detach().numpy()
def get_p(rbm): return [getattr(rbm,k).detach().numpy() for k in ('weights_W','weights_U','visible_bias','hidden_bias','aux_bias')]
def lse(x, axis): 
    m=x.max(axis=axis,keepdims=True); return (m+np.log(np.exp(x-m).sum(axis=axis,keepdims=True))).squeeze(axis)
def rbm_logp(W,b,c):
    nh,nv=W.shape; V,H=bits(nv),bits(nh)
    ex=(V@b)[:,None]+(H@c)[None,:]+V@W.T@H.T
    return lse(ex,1)
def pur_logp_va(W,U,b,c,d):
    nh,nv=W.shape; na=U.shape[0]; V,H,A=bits(nv),bits(nh),bits(na)
    ex=(V@b)[:,None,None]+(A@d)[None,:,None]+(H@c)[None,None,:]+(V@W.T@H.T)[:,None,:]+(V@U.T@A.T)[:,:,None]
    return lse(ex,2)
def ref_psi(lam,mu): return np.exp(rbm_logp(*lam)/2+1j*rbm_logp(*mu)/2)
def ref_rho(lam,mu):
    psi=np.exp(pur_logp_va(*lam)/2+1j*pur_logp_va(*mu)/2); return psi@psi.conj().T
PX=np.array([[0,1],[1,0]],dtype=complex); PY=np.array([[0,-1j],[1j,0]]); PZl=np.diag([-1.,1.]).astype(complex); I2=np.eye(2,dtype=complex)
def kron_all(ms):
    out=np.array([[1.+0j]])
    for m in ms: out=np.kron(out,m)
    return out
def site_op(P,i,n): return kron_all([P if j==i else I2 for j in range(n)])
def close(a,b,rt=1e-9): 
    a=np.asarray(a); b=np.asarray(b)
    return a.shape==b.shape and bool(np.all(np.abs(a-b)<=rt*np.maximum(1,np.maximum(np.abs(a),np.abs(b)))))
