from lib import *
import time, hashlib
from qucumber.callbacks import LambdaCallback
def H(t): return hashlib.sha256(t.detach().numpy().tobytes()).hexdigest()[:10]
def ptrs(r): return {p.data_ptr() for p in r.parameters()}
data=torch.tensor([[0.,1.,1.],[1.,1.,0.],[1.,0.,0.]]); bases=np.array([list("ZZZ"),list("XYZ"),list("YZX")])
OPT=[(torch.optim.SGD,{}),(torch.optim.SGD,{"momentum":0.9}),(torch.optim.Adam,{}),(torch.optim.SGD,{"weight_decay":0.1})]
bad=[]; tot=0
def check_state(st,tag,built_from_sizes,arch):
    ok=[]
    if len(st.networks)>1:
        if ptrs(st.rbm_am)&ptrs(st.rbm_ph): ok.append("shared storage")
        # mutate am in place, ph must not change
        before=[H(p) for p in st.rbm_ph.parameters()]
        for p in st.rbm_am.parameters(): p.data.add_(0.125)
        if before!=[H(p) for p in st.rbm_ph.parameters()]: ok.append("aliasing")
        for p in st.rbm_am.parameters(): p.data.sub_(0.125)
    return ok
for Tt in (PositiveWaveFunction,ComplexWaveFunction,DensityMatrix):
    for mode in ("sizes","sizes_default","module"):
        for seq in itertools.product(("reinit","fit0","fit1","fit2","fit3","nobases"),repeat=2):
            tot+=1; why=[]
            try:
                torch.manual_seed(3)
                if mode=="module":
                    m=BinaryRBM(3,2,gpu=False) if Tt is not DensityMatrix else PurificationRBM(3,2,4,gpu=False)
                    for p in m.parameters(): p.data.add_(0.2)
                    if Tt is DensityMatrix: m.aux_bias.data.zero_()
                    want=[H(p) for p in m.parameters()]
                    st=Tt(3,gpu=False,module=m)
                    if st.rbm_am is not m: why.append("rbm_am is not module")
                    if len(st.networks)>1 and [H(p) for p in st.rbm_ph.parameters()]!=want: why.append("phase not a copy")
                    shapes=(3,2,4)
                elif mode=="sizes":
                    st=Tt(3,2,gpu=False) if Tt is not DensityMatrix else Tt(3,2,4,gpu=False); shapes=(3,2,4)
                else:
                    st=Tt(3,gpu=False); shapes=(3,3,3)
                if (st.num_visible,st.num_hidden)!=shapes[:2] or (Tt is DensityMatrix and st.num_aux!=shapes[2]): why.append("sizes")
                if mode!="module":
                    for net in st.networks:
                        r=getattr(st,net)
                        if any(float(p.abs().sum())!=0 for n,p in r.named_parameters() if 'bias' in n): why.append("nonzero bias")
                        if any(float(p.abs().sum())==0 for n,p in r.named_parameters() if 'weights' in n): why.append("zero weights")
                why+=check_state(st,"init",mode!="module",shapes)
                for op in seq:
                    if op=="reinit":
                        old=[(n,H(p),tuple(p.shape)) for net in st.networks for n,p in getattr(st,net).named_parameters()]
                        st.reinitialize_parameters()
                        new=[(n,H(p),tuple(p.shape)) for net in st.networks for n,p in getattr(st,net).named_parameters()]
                        for (n,h0,s0),(_,h1,s1) in zip(old,new):
                            if s0!=s1: why.append("shape changed")
                            if 'weights' in n and h0==h1: why.append("weights not redrawn "+n)
                    elif op.startswith("fit"):
                        oc,oa=OPT[int(op[3])]
                        kw=dict(input_bases=bases) if Tt is not PositiveWaveFunction else {}
                        st.fit(data,epochs=2,pos_batch_size=2,lr=0.1,optimizer=oc,optimizer_args=oa,**kw)
                        if Tt is DensityMatrix and mode!="module" and float(st.rbm_ph.aux_bias.abs().sum())!=0: why.append("phase aux bias moved")
                    elif op=="nobases" and Tt is not PositiveWaveFunction:
                        ev=[]; before=[H(p) for net in st.networks for p in getattr(st,net).parameters()]; rs=torch.get_rng_state().clone()
                        try: st.fit(data,epochs=1,callbacks=[LambdaCallback(on_train_start=lambda s: ev.append(1))]); why.append("no-bases accepted")
                        except ValueError: pass
                        if ev or before!=[H(p) for net in st.networks for p in getattr(st,net).parameters()] or not torch.equal(rs,torch.get_rng_state()): why.append("no-bases changed something")
                    why+=check_state(st,op,False,shapes)
            except Exception as e: why.append(("exception",type(e).__name__,str(e)[:50]))
            if why: bad.append((Tt.__name__,mode,seq,why[:2]))
from collections import Counter
print("C20 histories",tot,"bad",len(bad)); print(Counter((b[0],b[1],str(b[3][0])) for b in bad).most_common(6))
