CONSTANTS E0 = 1
E = 2
NB = 2
INIT Init
NEXT Next
INVARIANT NoBatchAfterStopSeen
INVARIANT TrainEndOnce
