from lib import *
import time
t0=time.time(); n=0; worst=0; bad=[]
# C01 grid incl. extremes: relative error of psi, prob, Z in plain and log domain
for nv,nh in itertools.product(range(1,5),range(1,5)):
    for T in (PositiveWaveFunction, ComplexWaveFunction):
        st=T(nv,nh,gpu=False); nets=[getattr(st,x) for x in st.networks]
        sp=st.generate_hilbert_space()
        for tag,vals in param_cases([nparams(r) for r in nets], npat=2):
            for r,v in zip(nets,vals): set_flat(r,v)
            n+=1
            lam=get_b(st.rbm_am); la=rbm_logp(*lam)
            p=st.probability(sp).numpy(); Z=st.normalization(sp).item()
            psi=cplx.numpy(st.psi(sp))
            e1=np.max(np.abs(np.log(p)-la)/np.maximum(1,np.abs(la)))
            e2=abs(math.log(Z)-lse(la,0))/max(1,abs(lse(la,0)))
            e3=np.max(np.abs(np.abs(psi)**2-p)/p)
            if T is ComplexWaveFunction:
                ph=rbm_logp(*get_b(st.rbm_ph))/2
                e4=np.max(np.abs(psi/np.abs(psi)-np.exp(1j*ph)))
                e5=np.max(np.abs(st.phase(sp).numpy()-ph)/np.maximum(1,np.abs(ph)))
            else:
                e4=np.max(np.abs(psi.imag)); e5=float((psi.real<0).any())
            w=max(e1,e2,e3,e4,e5)
            if not np.isfinite(w) or w>1e-9: bad.append((T.__name__,nv,nh,tag,e1,e2,e3,e4,e5))
            worst=max(worst,w) if np.isfinite(w) else worst
print("C01 cases",n,"worst",worst,"bad",len(bad),time.time()-t0); print(bad[:5])
