import sys, os; sys.path[:0]=[os.environ.get('VERIF_REPO','/repo'),'/verif/.deps','/verif/design_probes']
import torch, numpy as np, itertools, warnings, math
from qucumber.nn_states import PositiveWaveFunction, ComplexWaveFunction, DensityMatrix
from qucumber.observables import *
from qucumber.utils import cplx
warnings.simplefilter("ignore")
torch.manual_seed(0)
def onepass(xs):
    n=len(xs); m=math.fsum(xs)/n
    v=math.fsum((x-m)**2 for x in xs)/(n-1) if n>1 else float('nan')
    return m,v
bad=0; tot=0
for T in (PositiveWaveFunction, DensityMatrix):
  st=T(2,gpu=False)
  for obs in (SigmaZ(), SigmaX()-2*SigmaZ(), System(SigmaZ(),SigmaX())):
    for ns,nc,bi,stp,init,ow in itertools.product(range(2,6),range(0,7),(0,2),(0,1,2),(None,2,3),(False,True)):
        if nc==1 or (init is None and nc==0 and ns==1): continue
        calls=[]
        orig=T.sample
        def wrapped(k, num_samples=1, initial_state=None, overwrite=False, _st=st):
            inp=None if initial_state is None else initial_state.clone()
            r=orig(_st,k,num_samples=num_samples,initial_state=initial_state,overwrite=overwrite)
            calls.append(dict(k=k,n=num_samples,inp=inp,inp_id=None if initial_state is None else id(initial_state),ow=overwrite,out=r.clone(),out_id=id(r)))
            return r
        st.sample=wrapped
        user=None if init is None else torch.tensor(np.random.randint(0,2,size=(init,2)),dtype=torch.double)
        user0=None if user is None else user.clone()
        res=obs.statistics(st,num_samples=ns,num_chains=nc,burn_in=bi,steps=stp,initial_state=user,overwrite=ow)
        del st.sample
        tot+=1
        ks=[c['k'] for c in calls]
        chains=len(calls[0]['out'])
        ok = ks==[bi]+[stp]*(len(calls)-1)
        ok &= chains*len(calls)>=ns and chains*(len(calls)-1)<ns
        for i in range(1,len(calls)): ok &= torch.equal(calls[i]['inp'],calls[i-1]['out'])
        if user is not None:
            ok &= torch.equal(calls[0]['inp'],user0)
            ok &= torch.equal(user, calls[-1]['out'] if ow else user0)
        allstates=torch.cat([c['out'] for c in calls])
        items = obs.observables.items() if isinstance(obs,System) else [(None,obs)]
        for name,o in items:
            vals=o.apply(st,allstates).tolist(); m,v=onepass(vals)
            r=res[name] if name else res
            ok &= abs(r['mean']-m)<1e-12 and (abs(r['variance']-v)<1e-12) and r['num_samples']==len(vals) and abs(r['std_error']-math.sqrt(v/len(vals)))<1e-12
        if not ok:
            bad+=1
            if bad<5: print("BAD",T.__name__,type(obs).__name__,ns,nc,bi,stp,init,ow,ks,res)
print("C13 driver cases",tot,"bad",bad)
# C09 pairing rule
st=ComplexWaveFunction(3,gpu=False); sp=st.generate_hilbert_space()
batch=sp[[1,6,3,4]]; A=[0,2]; out=SWAP(A).apply(st,batch)
def pairval(a,b): return SWAP(A).apply(st,torch.stack([a,b]))[0].item()
for d in (1,-1): print("C09 shift",d,[abs(out[i].item()-pairval(batch[i],batch[(i+d)%4]))<1e-12 for i in range(4)])
# C15 rank>=3
rng=np.random.default_rng(0)
def C(*s): return rng.integers(-3,4,size=s)+1j*rng.integers(-3,4,size=s)
def enc(z): return torch.tensor(np.stack([z.real,z.imag]),dtype=torch.double)
a,b=C(3,4),C(3,4,5); print("einsum ib,ibg->bg", np.allclose(cplx.numpy(cplx.einsum("ib,ibg->bg",enc(a),enc(b))), np.einsum("ib,ibg->bg",a,b)))
a,b=C(2,2,3),C(2,2,3,5); print("einsum ijb,ijbg->bg re", np.allclose(cplx.einsum("ijb,ijbg->bg",enc(a),enc(b),imag_part=False).numpy(), np.einsum("ijb,ijbg->bg",a,b).real))
