from lib import *
import time, statistics
from qucumber.observables.utils import _update_statistics
from qucumber.observables import SigmaZ, SigmaX, System
def onepass(xs):
    n=len(xs); m=math.fsum(xs)/n
    return m,(math.fsum((x-m)**2 for x in xs)/(n-1) if n>1 else float('nan')),n
def chunkstat(xs):
    v,m=torch.var_mean(torch.tensor(xs,dtype=torch.double)); return m.item(),v.item(),len(xs)
def eq(a,b): return (math.isnan(a) and math.isnan(b)) or abs(a-b)<=1e-12*max(1,abs(a),abs(b))
VAL=[-1.5,0.,0.25,2.]
t0=time.time(); tot=0; bad=0; exc=0; firstbad=None
for L in range(1,6):
    for xs in itertools.product(VAL,repeat=L):
        for mask in range(2**(L-1)):     # composition into chunks
            chunks=[];cur=[xs[0]]
            for i in range(1,L):
                if mask>>(i-1)&1: chunks.append(cur); cur=[xs[i]]
                else: cur.append(xs[i])
            chunks.append(cur)
            acc=(0.0,0.0,0); tot+=1
            try:
                for c in chunks:
                    m,v,n=chunkstat(c); acc=_update_statistics(acc[0],acc[1],acc[2],m,v,n)
            except ZeroDivisionError: exc+=1; continue
            want=onepass(list(xs))
            if not (eq(acc[0],want[0]) and eq(acc[1],want[1]) and acc[2]==want[2]):
                bad+=1; firstbad=firstbad or (xs,chunks,acc,want)
print("C13a merges",tot,"bad",bad,"zerodiv",exc,time.time()-t0,firstbad)
st=PositiveWaveFunction(2,gpu=False)
for kw in (dict(num_samples=4,num_chains=1),dict(num_samples=1),dict(num_samples=3,num_chains=0)):
    try: print(kw, SigmaZ().statistics(st,burn_in=1,steps=1,**kw), System(SigmaZ(),SigmaX()).statistics(st,burn_in=1,**kw)["SigmaX"])
    except Exception as e: print(kw,"EXC",type(e).__name__)
