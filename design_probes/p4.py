import sys, os; sys.path[:0]=[os.environ.get('VERIF_REPO','/repo'),'/verif/.deps','/verif/design_probes']
import torch, numpy as np, itertools, time, warnings
from ref import *
from qucumber.nn_states import PositiveWaveFunction, ComplexWaveFunction, DensityMatrix
from qucumber.utils import cplx, unitaries
from qucumber.observables import SigmaX, SigmaY, SigmaZ, NeighbourInteraction, SWAP, System
from qucumber.observables.utils import _update_statistics
rng=np.random.default_rng(0)
def setp(rbm, scale, rng):
    for p in rbm.parameters(): p.data = torch.tensor(rng.uniform(-scale,scale,size=tuple(p.shape)))
# ---- C03 via autograd reference in torch complex128
def T(x): return torch.tensor(x, dtype=torch.double)
def allbits(n): return T(np.array(list(itertools.product([0.,1.],repeat=n))).reshape(2**n,n))
def logp_rbm(W,b,c,V):   # brute force over hidden
    H=allbits(W.shape[0])
    ex = (V@b)[:,None] + (H@c)[None,:] + V@W.t()@H.t()
    return torch.logsumexp(ex,1)
def kronU(basis, ud):
    U=torch.ones(1,1,dtype=torch.cdouble)
    for ch in basis:
        m=ud[ch]; U=torch.kron(U, torch.complex(m[0],m[1]))
    return U
def ref_nll_complex(params_am, params_ph, samples, bases, ud):
    n=samples.shape[1]; V=allbits(n)
    la=logp_rbm(*params_am,V); ph=logp_rbm(*params_ph,V)
    psi=torch.exp(torch.complex(la/2, ph/2))
    Z=torch.exp(la).sum()
    tot=0
    for s,b in zip(samples,bases):
        U=kronU(b,ud); idx=int(sum(int(x)*2**(n-1-i) for i,x in enumerate(s)))
        amp=(U@psi)[idx]
        tot=tot-torch.log((amp.abs()**2)/Z)
    return tot/len(samples)
s=ComplexWaveFunction(2,3,gpu=False); setp(s.rbm_am,1.,rng); setp(s.rbm_ph,1.,rng)
samples=T([[0,1],[1,1],[1,0],[0,0],[1,0]]); bases=np.array([list("XY"),list("ZZ"),list("YZ"),list("XY"),list("ZX")])
pa=[p.detach().clone().requires_grad_(True) for p in s.rbm_am.parameters()]
pp=[p.detach().clone().requires_grad_(True) for p in s.rbm_ph.parameters()]
nll=ref_nll_complex(pa,pp,samples,bases,s.unitary_dict); nll.backward()
ref_am=torch.cat([p.grad.reshape(-1) for p in pa]); ref_ph=torch.cat([p.grad.reshape(-1) for p in pp])
g=s.compute_exact_gradients(samples, s.generate_hilbert_space(), bases_batch=bases)
print("C03 complex am", (g[0]-ref_am).abs().max().item(), "ph", (g[1]-ref_ph).abs().max().item(), [n for n,_ in s.rbm_am.named_parameters()])
# 1-D call form
g1=s.gradient(samples[0], bases[0]); g2=s.gradient(samples[:1], bases[:1]); print("1-D form diff", (g1[0]-g2[0]).abs().max().item())
try:
    p=PositiveWaveFunction(2,2,gpu=False); print(p.compute_exact_grads(samples, p.generate_hilbert_space()))
except Exception as e: print("C03 compute_exact_grads FAIL:", type(e).__name__, e)
# ---- C08
for ST in (PositiveWaveFunction, ComplexWaveFunction, DensityMatrix):
    n=3; st=ST(n,gpu=False)
    for net in st.networks: setp(getattr(st,net),1.,rng)
    if ST is DensityMatrix: st.rbm_ph.aux_bias.data.zero_()
    sp=st.generate_hilbert_space(); Zn=st.normalization(sp).item(); p=st.probability(sp).numpy()/Zn
    if ST is DensityMatrix: rho=cplx.numpy(st.rho(sp,sp))/Zn
    else:
        psi=cplx.numpy(st.psi(sp))/np.sqrt(Zn); rho=np.outer(psi,psi.conj())
    for name,O,P in [("X",SigmaX(),X),("Y",SigmaY(),Y),("Z",SigmaZ(),Z)]:
        sp0=sp.clone(); val=(O.apply(st,sp).numpy()*p).sum(); assert torch.equal(sp,sp0)
        want=sum(np.trace(rho@site_op(P,i,n)).real for i in range(n))/n
        print("C08",ST.__name__,name,abs(val-want))
# ---- C09
for ST in (ComplexWaveFunction, DensityMatrix):
    n=3; st=ST(n,gpu=False)
    for net in st.networks: setp(getattr(st,net),1.,rng)
    if ST is DensityMatrix: st.rbm_ph.aux_bias.data.zero_()
    sp=st.generate_hilbert_space(); Zn=st.normalization(sp).item(); p=st.probability(sp).numpy()/Zn
    if ST is DensityMatrix: rho=cplx.numpy(st.rho(sp,sp))/Zn
    else:
        psi=cplx.numpy(st.psi(sp))/np.sqrt(Zn); rho=np.outer(psi,psi.conj())
    for A in ([0],[1,2],[],[0,1,2],1, np.array([0,2]), torch.tensor([2])):
        tot=0
        for i in range(8):
            for j in range(8):
                tot+=p[i]*p[j]*SWAP(A).apply(st, torch.stack([sp[i],sp[j]]))[0].item()
        Al=[A] if isinstance(A,int) else list(np.array(A).astype(int))
        B=[k for k in range(n) if k not in Al]
        r=rho.reshape([2]*(2*n))
        # partial trace over B
        rA=np.einsum(r, list(range(n))+[ (k+n if k in Al else k) for k in range(n)], [k for k in Al]+[k+n for k in Al]).reshape(2**len(Al),-1)
        print("C09",ST.__name__,A,abs(tot-np.trace(rA@rA).real))
# ---- C13
print("C13 merge n=1:", _update_statistics(0.0,0.0,0, 2.0, float('nan'), 1), _update_statistics(2.0,float('nan'),1, 4.0, float('nan'),1))
st=PositiveWaveFunction(2,gpu=False)
with warnings.catch_warnings():
    warnings.simplefilter("ignore")
    print("C13 num_chains=1:", SigmaZ().statistics(st, num_samples=4, num_chains=1, burn_in=1, steps=1))
    print("C13 num_chains=2:", SigmaZ().statistics(st, num_samples=5, num_chains=2, burn_in=1, steps=1))
# ---- C16
O=SigmaZ()
for expr in ["np.float64(2.0)*O","O*np.float64(2.0)","np.float64(1.5)+O","np.float64(1.5)-O","2-O","O-2","-(O+1)","O*O","O*'a'","True*O","O+np.int64(1)", "np.float32(2)*O"]:
    try:
        r=eval(expr); print("C16",expr,type(r).__name__, r.apply(st, st.generate_hilbert_space()) if hasattr(r,'apply') else r)
    except Exception as e: print("C16",expr,"EXC",type(e).__name__,e)
