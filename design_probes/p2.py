import sys, os; sys.path[:0]=[os.environ.get('VERIF_REPO','/repo'),'/verif/.deps']
import torch, numpy as np, itertools, time
from torch.overrides import TorchFunctionMode
from qucumber.nn_states import PositiveWaveFunction, ComplexWaveFunction, DensityMatrix

class Own(TorchFunctionMode):
    def __init__(s): super().__init__(); s.log=[]
    def __torch_function__(s, func, types, args=(), kwargs=None):
        kwargs = kwargs or {}
        name = getattr(func,'__name__',str(func))
        if name in ('bernoulli','bernoulli_','randperm','randint','randn','rand','normal_','uniform_','random_'):
            s.log.append((name, [tuple(a.shape) if isinstance(a,torch.Tensor) else a for a in args], list(kwargs)))
        return func(*args, **kwargs)

torch.manual_seed(1)
st0 = torch.get_rng_state().clone()
with Own() as m:
    s = PositiveWaveFunction(2, 3, gpu=False)
    x = s.sample(k=2, num_samples=3)
    d = DensityMatrix(2,2,2,gpu=False)
    y = d.sample(k=1, num_samples=2)
    s.fit(torch.tensor([[0.,1.],[1.,1.],[1.,0.]]), epochs=1, pos_batch_size=2, neg_batch_size=1)
for l in m.log: print(l)
print("rng changed:", not torch.equal(st0, torch.get_rng_state()))
