import sys, os; sys.path[:0]=[os.environ.get('VERIF_REPO','/repo'),'/verif/.deps','/verif/design_probes']
import torch, numpy as np, itertools, time, warnings
from qucumber.nn_states import PositiveWaveFunction, ComplexWaveFunction, DensityMatrix
from qucumber.observables import SigmaX, SigmaY, SigmaZ, NeighbourInteraction, SWAP, System
from qucumber.observables.utils import _update_statistics
from qucumber.callbacks import *
warnings.simplefilter("ignore")
st=PositiveWaveFunction(2,gpu=False)
for kw in [dict(num_samples=4,num_chains=1),dict(num_samples=1),dict(num_samples=5,num_chains=2),dict(num_samples=3,num_chains=7), dict(num_samples=4,num_chains=2,burn_in=0,steps=0)]:
    try: print("C13",kw, SigmaZ().statistics(st, burn_in=kw.pop('burn_in',1), steps=kw.pop('steps',1), **kw))
    except Exception as e: print("C13",kw,"EXC",type(e).__name__,e)
O=SigmaZ()
for expr in ["np.float64(2.0)*O","O*np.float64(2.0)","np.float64(1.5)+O","np.float64(1.5)-O","2-O","O-2","-(O+1)","O*O","O*'a'","True*O","O+np.int64(1)", "np.float32(2)*O", "0*O", "O+0", "(O+O)*2", "2*(O-O)"]:
    try:
        r=eval(expr); print("C16",expr,type(r).__name__, r.apply(st, st.generate_hilbert_space()) if hasattr(r,'apply') else r)
    except Exception as e: print("C16",expr,"EXC",type(e).__name__,e)
# C18
def run(seq, patience, tol, crit="absolute", period=1, eperiod=1):
    st=PositiveWaveFunction(1,1,gpu=False)
    ev=MetricEvaluator(eperiod, {"m": lambda s, **kw: seq[len(calls)] if not calls.append(1) else None})
    calls=[]
    ev=MetricEvaluator(eperiod, {"m": lambda s, **kw: (calls.append(1), seq[len(calls)-1])[1]})
    es=EarlyStopping(period, tol, patience, ev, "m", criterion=crit)
    eps=[]
    st.fit(torch.tensor([[0.],[1.]]), epochs=len(seq)*eperiod, pos_batch_size=2, callbacks=[ev,es,LambdaCallback(on_epoch_end=lambda s,e: eps.append(e))])
    return eps[-1], es.last_epoch
print("C18 p=1 seq 1,5,9,13 tol .1:", run([1.,5.,9.,13.],1,0.1))
print("C18 p=2 seq 1,5,1,5,1 tol .1:", run([1.,5.,1.,5.,1.],2,0.1))
print("C18 p=2 seq 1,5,9,13 tol .1:", run([1.,5.,9.,13.,17.],2,0.1))
try: print("C18 rel zero ref:", run([0.,5.,9.,13.,17.],2,0.1,"relative"))
except Exception as e: print("C18 rel zero EXC", type(e).__name__, e)
# C19
s=PositiveWaveFunction(3,gpu=False)
print(s.generate_hilbert_space(), s.subspace_vector(6), s.subspace_vector(1,size=4))
from qucumber.utils.unitaries import _convert_basis_element_to_index
print(_convert_basis_element_to_index(s.generate_hilbert_space()))
t=time.time(); x=s.generate_hilbert_space(20); print(x.shape, time.time()-t)
