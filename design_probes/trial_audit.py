import sys, os, subprocess, shutil, re, json, time
from concurrent.futures import ThreadPoolExecutor
sys.path.insert(0,os.path.dirname(os.path.abspath(__file__))); from trial_mutants import M
PROBES='/verif/design_probes'
def prep(base):
    d=f'/tmp/mut/base_{base}'
    if not os.path.exists(d):
        shutil.copytree('/repo',d,ignore=shutil.ignore_patterns('.git','__pycache__','.benchmarks'))
        if base=='fixed': subprocess.run(['patch','-p1','-s','-i',f'{PROBES}/intended_repairs.patch'],cwd=d,check=True)
    return d
for b in ('repo','fixed'): prep(b)
CLEAN=re.compile(r"bad (0\b|\[\]|Counter\(\)|keys \{\}|\{\})")
def run(m):
    mid,prop,f,old,new,probe,base=m
    d=f'/tmp/mut/{mid}'; shutil.rmtree(d,ignore_errors=True); shutil.copytree(prep(base),d)
    p=os.path.join(d,f); s=open(p).read()
    if s.count(old)!=1: return (mid,prop,'PATCH-FAILED',s.count(old),'','')
    open(p,'w').write(s.replace(old,new))
    env=dict(os.environ,PYTHONDONTWRITEBYTECODE='1')
    t=subprocess.run(['/venv/bin/python','-m','pytest','-q','-p','no:cacheprovider','--timeout=900','--continue-on-collection-errors','-q'],cwd=d,env=env,capture_output=True,text=True)
    tl=[l for l in t.stdout.splitlines() if 'passed' in l or 'failed' in l]
    tests=tl[-1] if tl else t.stdout[-200:]
    env['VERIF_REPO']=d
    r=subprocess.run(['/venv/bin/python',os.path.join(PROBES,probe)],env=env,capture_output=True,text=True,timeout=3000)
    out=(r.stdout+r.stderr).strip().splitlines()
    last=[l for l in out if 'bad' in l or 'Error' in l or 'assert' in l.lower()]
    summary=(last[-1] if last else (out[-1] if out else ''))[:230]
    detected = r.returncode!=0 or not all(CLEAN.search(l) for l in out if re.search(r'\bbad\b',l) and ('cases' in l or 'runs' in l or 'calls' in l or 'trees' in l or 'histories' in l or 'fits' in l or 'merges' in l or 'evaluations' in l or 'executions' in l or 'checks' in l))
    if 'executions' in ''.join(out) and 'worst' in ''.join(out):   # r5 reports worst only
        m_=re.search(r'worst ([0-9.e+-]+)',''.join(out)); detected = detected or (m_ and float(m_.group(1))>1e-9)
    shutil.rmtree(d,ignore_errors=True)
    return (mid,prop,'DETECTED' if detected else 'MISSED',tests,probe,summary)
only=sys.argv[1:] 
todo=[m for m in M if not only or m[0] in only]
with ThreadPoolExecutor(8) as ex:
    for res in ex.map(run,todo): print(' | '.join(map(str,res)),flush=True)
