import sys, os; sys.path[:0]=[os.environ.get('VERIF_REPO','/repo'),'/verif/.deps','/verif/design_probes']
import torch, numpy as np, itertools, warnings, math, io, contextlib
from collections import Counter
from torch.overrides import TorchFunctionMode
from qucumber.nn_states import PositiveWaveFunction, ComplexWaveFunction, DensityMatrix
from qucumber.callbacks import *
warnings.simplefilter("ignore")
class Env(TorchFunctionMode):
    def __init__(s, perm_choice): super().__init__(); s.perm_choice=perm_choice; s.perms=[]; s.ints=[]
    def __torch_function__(s, func, types, args=(), kwargs=None):
        kwargs=kwargs or {}; name=getattr(func,'__name__','')
        if name=='randperm':
            n=args[0]; p=list(itertools.permutations(range(n)))[s.perm_choice % math.factorial(n)]; s.perms.append(p); return torch.tensor(p,dtype=torch.long)
        if name=='randint':
            r=func(*args,**kwargs); s.ints.append(r.tolist()); return r
        return func(*args,**kwargs)
bad=0; tot=0; excs=Counter()
for T in (PositiveWaveFunction, ComplexWaveFunction):
  for N,pb,nb,ep in itertools.product(range(1,5),range(1,6),(None,1,3),(1,2)):
    rows=[[i>>1&1, i&1] for i in range(4)]
    data=[rows[i%4] for i in range(N)]
    if N>=3: data[2]=data[0]   # duplicate
    basesl=[list("ZZ"),list("XY"),list("ZZ"),list("YZ")][:N]
    bases=np.array(basesl) if T is ComplexWaveFunction else None
    for form in ("tensor","numpy","list"):
      for pc in range(min(math.factorial(N),6)):
        st=T(2,2,gpu=False)
        d = torch.tensor(data,dtype=torch.double) if form=="tensor" else (np.array(data,dtype=float) if form=="numpy" else [list(r) for r in data])
        d0 = d.clone() if form=="tensor" else (d.copy() if form=="numpy" else [list(r) for r in d])
        b0 = None if bases is None else bases.copy()
        seen=[]
        orig=st.compute_batch_gradients
        evs=[]
        st.compute_batch_gradients=lambda k,*b,_o=orig: (seen.append((len(evs),[x.clone() if isinstance(x,torch.Tensor) else x.copy() for x in b])), _o(k,*b))[1]
        cb=LambdaCallback(on_epoch_start=lambda s,e: evs.append(e))
        try:
          with Env(pc) as env:
            kw=dict(input_bases=bases) if bases is not None else {}
            st.fit(d,epochs=ep,pos_batch_size=pb,neg_batch_size=nb,callbacks=[cb],**kw)
        except Exception as ex:
            tot+=1; bad+=1; excs[(T.__name__,N,type(ex).__name__)]+=1; continue
        tot+=1; ok=True
        ok &= (torch.equal(d,d0) if form=="tensor" else (np.array_equal(d,d0) if form=="numpy" else d==d0))
        if bases is not None: ok &= np.array_equal(bases,b0)
        for e in range(1,ep+1):
            bs=[b for (ee,b) in seen if ee==e]
            ok &= len(bs)==math.ceil(N/pb)
            sizes=[len(b[0]) for b in bs]; ok &= all(x==pb for x in sizes[:-1]) and 0<sizes[-1]<=pb and sum(sizes)==N
            pairs=Counter()
            for b in bs:
                for i in range(len(b[0])): pairs[(tuple(b[0][i].tolist()), tuple(b[2][i]) if len(b)>2 else None)]+=1
            want=Counter((tuple(map(float,data[i])), tuple(basesl[i]) if bases is not None else None) for i in range(N))
            ok &= pairs==want
            # follows the permutation answered
            perm=env.perms[e-1]; flat=[tuple(r.tolist()) for b in bs for r in b[0]]
            ok &= flat==[tuple(map(float,data[j])) for j in perm]
            nbs = nb if nb else pb
            for b in bs:
                negrows=[tuple(r.tolist()) for r in b[1]]
                pool=[tuple(map(float,data[i])) for i in range(N) if bases is None or all(c=="Z" for c in basesl[i])]
                ok &= all(r in pool for r in negrows)
                # exactly neg_batch_size rows; tolerated exception: the negative batch *is* the (shorter) tail positive batch
                ok &= len(negrows)==nbs or (bases is None and nbs==pb and torch.equal(b[1],b[0]))
        if not ok:
            bad+=1
            if bad<4: print("BAD",T.__name__,N,pb,nb,ep,form,pc)
print("C07 cases",tot,"bad",bad,dict(excs))
