import sys, os, re, ast; sys.path[:0]=[os.environ.get('VERIF_REPO','/repo'),'/verif/.deps','/verif/design_probes']
import torch, warnings
from qucumber.nn_states import PositiveWaveFunction
from qucumber.callbacks import CallbackBase
warnings.simplefilter("ignore")
txt=open('/tmp/fitprotocol/states.dump').read()
states=[]
for blk in re.split(r'State \d+:\n', txt)[1:]:
    d={}
    for line in re.split(r'\n(?=/\\ )', blk.strip()):
        line=' '.join(line.split('\n'))
        m=re.match(r'/\\ (\w+) = (.*)', line); 
        v=m.group(2).replace('<<>>','()').replace('<<','(').replace('>>',',)').replace('TRUE','True').replace('FALSE','False')
        d[m.group(1)]=ast.literal_eval(v)
    states.append(d)
term=[s for s in states if s['pc']=='done']
print(len(states), len(term))
class Rec(CallbackBase):
    def __init__(s, inject_at): s.log=[]; s.inject_at=inject_at
    def _ev(s, nn, *e):
        idx=len(s.log)
        if idx==s.inject_at: nn.stop_training=True
        s.log.append((tuple(e), nn.stop_training))
    def on_train_start(s,nn): s._ev(nn,"train_start")
    def on_train_end(s,nn): s._ev(nn,"train_end")
    def on_epoch_start(s,nn,ep): s._ev(nn,"epoch_start",ep)
    def on_epoch_end(s,nn,ep): s._ev(nn,"epoch_end",ep)
    def on_batch_start(s,nn,ep,b): s._ev(nn,"batch_start",ep,b)
    def on_batch_end(s,nn,ep,b): s._ev(nn,"batch_end",ep,b)
ok=0
impl_traces=set()
for t in term:
    tr=t['trace']
    # injection index: first event whose stop-after is True (and it was False before)
    pre = (len(tr)==0 and t['stop'])
    inj=None
    for i,(e,sa) in enumerate(tr):
        if sa: inj=i; break
    st=PositiveWaveFunction(1,1,gpu=False)
    st.stop_training = bool(pre)
    r=Rec(inj if inj is not None else -1)
    st.fit(torch.tensor([[0.],[1.]]), epochs=2, starting_epoch=1, pos_batch_size=1, callbacks=[r])
    got=tuple(r.log)
    want=tuple((tuple(e),sa) for e,sa in tr)
    ok+= (got==want)
    if got!=want: print("MISMATCH", want, got)
print("model->code traces equal:", ok, "/", len(term))
