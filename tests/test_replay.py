"""Plain regression tests: every recorded violation (replays/CNN/*.json written by a check, and the
replay files kept with the seeded changes under seeded/*/) is re-executed WITHOUT the explorer, by
calling the property module's replay(case) on the tree under test ($VERIF_REPO, default /repo).
On a tree where the property holds each replay must come back clean.

  cd /verif && PYTHONPATH=/verif /venv/bin/python -m pytest -q tests/test_replay.py
"""
import glob
import importlib
import json
import os
import sys

HOME = os.path.dirname(os.path.dirname(os.path.abspath(__file__)))
sys.path.insert(0, HOME)
os.environ.setdefault("QMC_HOME", HOME)

import pytest  # noqa: E402

FILES = sorted(glob.glob(os.path.join(HOME, "replays", "*", "*.json")) + glob.glob(os.path.join(HOME, "seeded", "*", "replay*.json")))


@pytest.mark.parametrize("path", FILES or [None])
def test_replay(path):
    if path is None:
        pytest.skip("no replay files recorded")
    from qmc import common
    from qmc.engine.acc import Acc

    common.lib()
    rp = json.load(open(path))
    mod = importlib.import_module("qmc.props." + rp["property"].lower())
    case = rp["case"]
    res = mod.run_item(case["item"]) if isinstance(case, dict) and set(case) == {"item"} else mod.replay(case)
    d = res.to_dict() if isinstance(res, Acc) else res
    assert not d["violations"], f"{rp['property']} {rp['signature']} still violated: {json.dumps(d['violations'][0])[:500]}"
