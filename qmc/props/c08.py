"""C08 - observable estimators are unbiased for the operator they name.

E3 lattice.  sum_v pi(v) * O.apply(v)  ==  tr(rho_hat O_op)  with exact weights over the whole basis
(no sampling), dense operators built with the library's documented conventions.
"""
import numpy as np
import torch

from ..common import lib, call, LibRaised, build_state, param_assignments, close, maxerr, sha, tbits
from ..engine.acc import Acc
from ..ref import models as R

ID = "C08"
ENGINE_NAME = "E3 input lattice"
RULE = ("one case = (state type, architecture, parameter assignment); per case every built-in observable (SigmaX/Y/Z, "
        "absolute on/off, NeighbourInteraction for every c=1..n and both boundary conditions) is applied to the full basis, "
        "the reversed basis and every single row, and its exact expectation is compared with tr(rho O); "
        "non-trivial = non-zero biases and (for complex/mixed) non-trivial phases; distinct = distinct (type, arch, parameters)")
ASSUMPTIONS = ["pi and rho_hat are the library's own probability / psi / rho, normalised (their correctness is C01/C02)",
               "operator conventions as documented: to_pm1 maps 0->-1, 1->+1; SigmaY = [[0,-i],[i,0]]"]
TOL = 1e-9


def archs(tier):
    nmax = 4 if tier == "quick" else 5
    out = []
    for n in range(1, nmax + 1):
        out += [("positive", [n, n + 1]), ("positive", [n, max(1, n - 1)]), ("complex", [n, n + 1]), ("complex", [n, max(1, n - 1)]),
                ("mixed", [n, 2, 2]), ("mixed", [n, 1, 3])]
    seen, res = set(), []
    for k, a in out:
        if (k, tuple(a)) not in seen:
            seen.add((k, tuple(a)))
            res.append((k, a))
    return res


def bound(tier):
    return dict(architectures=[[k, a] for k, a in archs(tier)], patterns=2, deviations=1 if tier == "quick" else "1 (+2 for <= 8 parameters)",
                observables="SigmaX, SigmaY, SigmaZ (absolute F/T), NeighbourInteraction c=1..n x {open, periodic}",
                batches=["full space", "reversed space", "every single row as (1,n)"],
                extra=["polarised parameter sets (biases +-10)", "one set of observable objects reused on models of sizes 2,4,3,2,4 vs fresh objects"])


def plan(tier, seed):
    items = []
    for kind, arch in archs(tier):
        for q in range(2):
            for part in range(2):
                from ..common import net_sizes
                dev = 2 if (tier == "thorough" and net_sizes(kind, arch)[0] <= 8) else 1
                items.append(dict(kind=kind, arch=arch, q=q, part=part, dev=dev))
    for kind, arch in (("positive", [2, 3]), ("complex", [3, 2]), ("mixed", [2, 2, 2]), ("mixed", [3, 1, 3])):
        items.append(dict(kind=kind, arch=arch, scope="stateful"))
    # strongly polarised states (visible biases around +-10: basis-state probabilities down to 1e-12 and below)
    for kind, arch in (("mixed", [3, 1, 1]), ("mixed", [2, 2, 2]), ("complex", [3, 2]), ("positive", [3, 2]), ("complex", [4, 2])):
        items.append(dict(kind=kind, arch=arch, scope="polarised"))
    for kind in ("positive", "complex", "mixed"):
        items.append(dict(kind=kind, arch=[2, 2], scope="reused-objects"))
    return items


def rho_hat(st, kind, space):
    L = lib()
    Z = float(call(st.normalization, space))
    if kind == "mixed":
        return L.cplx.numpy(call(st.rho, space, space)) / Z, Z
    psi = L.cplx.numpy(call(st.psi, space)) / np.sqrt(Z)
    return np.outer(psi, psi.conj()), Z


def operators(n):
    D = 2 ** n
    ops = {}
    for nm, P in (("X", R.PX), ("Y", R.PY), ("Z", R.PZ_LIB)):
        ops[nm] = sum(R.site_op(P, i, n) for i in range(n)) / n
    for per in (False, True):
        for c in range(1, n + 1):
            pairs = [(i, (i + c) % n) for i in range(n)] if per else [(i, i + c) for i in range(n - c)]
            ops[("NI", per, c)] = sum((R.site_op(R.PZ_LIB, i, n) @ R.site_op(R.PZ_LIB, j, n) for i, j in pairs), np.zeros((D, D), complex)) / n
    return ops


_OPS = {}


def check_case(acc, kind, arch, params, st=None, history=None):
    case = dict(kind=kind, arch=arch, params=params)
    if history is not None:
        case["history"] = history
    L = lib()
    O = L.observables
    st = build_state(kind, arch, params) if st is None else st
    n = arch[0]
    D = 2 ** n
    from ..common import space_of
    space = space_of(st, n)
    if n not in _OPS:
        _OPS[n] = operators(n)
    ops = _OPS[n]
    acc.ev(1)

    def bad(sig, obs=None, exp=None, detail=None):
        acc.viol(sig, case, observed=obs, expected=exp, detail=detail, tol=TOL)

    try:
        rho, Z = rho_hat(st, kind, space)
        p = call(st.probability, space).numpy() / Z
        objs = {}
        for nm, cls in (("X", O.SigmaX), ("Y", O.SigmaY), ("Z", O.SigmaZ)):
            objs[nm] = (cls(), cls(absolute=True))
        for per in (False, True):
            for c in range(1, n + 1):
                objs[("NI", per, c)] = (O.NeighbourInteraction(periodic_bcs=per, c=c), None)
        for key, (ob, ob_abs) in objs.items():
            name = key if isinstance(key, str) else f"NI(per={key[1]},c={key[2]})"
            sig = "observable:" + (f"Sigma{key}" if isinstance(key, str) else f"NeighbourInteraction:{'periodic' if key[1] else 'open'}")
            sp0 = space.clone()
            val = call(ob.apply, st, space)
            acc.count("applies")
            if not torch.equal(space, sp0):
                bad(sig + ":modified-samples", space, sp0, detail=dict(observable=name))
                space = sp0
                continue
            if val.dim() != 1 or val.shape[0] != D or val.is_complex() or not torch.is_floating_point(val):
                bad(sig + ":not-one-real-number-per-sample", list(val.shape), [D], detail=dict(observable=name))
                continue
            v = val.numpy()
            want = float(np.trace(rho @ ops[key]).real)
            got = float((v * p).sum())
            acc.err(abs(got - want))
            if not abs(got - want) <= TOL:
                bad(sig + ":expectation-differs-from-trace", got, want, detail=dict(observable=name))
                continue
            # reversed batch and single rows: no cross-row leakage, order preserved
            vr = call(ob.apply, st, torch.flip(space, [0])).numpy()
            if not close(vr[::-1], v, 1e-12):
                bad(sig + ":batch-order-dependence", vr[::-1], v, detail=dict(observable=name))
                continue
            for k in range(D):
                one = call(ob.apply, st, space[k:k + 1])
                if one.shape != (1,) or not close(one.numpy()[0], v[k], 1e-12):
                    bad(sig + ":single-row-differs-from-batch-entry", one, v[k], detail=dict(observable=name, row=k))
                    break
            if ob_abs is not None:
                va = call(ob_abs.apply, st, space).numpy()
                if not close(va, np.abs(v), 1e-12):
                    bad(sig + ":absolute-is-not-pointwise-abs", va, np.abs(v), detail=dict(observable=name))
        acc.outcome(sha(np.round(p, 6)))
    except LibRaised as e:
        bad(f"observable:raised:{e.kind}", e.tb)


def run_reused_objects(acc, kind):
    """ONE set of observable objects serves models of different sizes in turn (what a script looping over system
    sizes does): the value on every basis state must be what a freshly constructed observable gives - evaluating an
    observable must not change it.  Sizes visit c == n, c < n, c == n again."""
    L = lib()
    O = L.observables
    from ..common import pattern, net_sizes

    def make():
        d = {"X": O.SigmaX(), "Y": O.SigmaY(), "Z": O.SigmaZ(), "|Z|": O.SigmaZ(absolute=True)}
        for per in (False, True):
            for c in (1, 2, 3):
                d[("NI", per, c)] = O.NeighbourInteraction(periodic_bcs=per, c=c)
        return d
    shared = make()
    visited = []
    for n in (2, 4, 3, 2, 4):
        arch = [n, 2] if kind != "mixed" else [n, 1, 1]
        sizes = net_sizes(kind, arch)
        params = [pattern(m, n, r) for r, m in enumerate(sizes)]
        if kind == "mixed":
            from ..common import aux_bias_slice
            sl = aux_bias_slice(arch)
            for t in range(sl.start, sl.stop):
                params[1][t] = 0.0
        st = build_state(kind, arch, params)
        space = call(st.generate_hilbert_space)
        fresh = make()
        visited.append(n)
        for key in shared:
            if not isinstance(key, str) and not key[1] and key[2] >= n:
                continue  # open chain: no pair at that distance
            acc.ev(1, nontrivial=True)
            acc.count("applies", 2)
            try:
                a = call(shared[key].apply, st, space).numpy()
                b = call(fresh[key].apply, st, space).numpy()
            except LibRaised as e:
                acc.viol(f"observable:raised:{e.kind}", dict(kind=kind, layer="reused-objects", sizes_visited=list(visited), observable=str(key)), observed=e.tb)
                return
            if not close(a, b, 1e-12):
                acc.viol("observable:value-depends-on-what-the-object-was-applied-to-before", dict(kind=kind, layer="reused-objects", sizes_visited=list(visited), observable=str(key)), observed=a, expected=b)
                return
    acc.outcome("reused:" + kind)


def run_stateful(acc, kind, arch):
    from ..common import update_params, UPDATE_STYLES
    from .c05 import stateful_sequence
    seq = stateful_sequence(kind, arch)
    st = build_state(kind, arch, seq[0])
    check_case(acc, kind, arch, seq[0], st=st, history=[])
    hist = []
    for i, style in enumerate(UPDATE_STYLES):
        hist = hist + [dict(update=style, to_pattern=i + 1)]
        update_params(st, seq[i + 1], style)
        check_case(acc, kind, arch, seq[i + 1], st=st, history=hist)


def run_item(item):
    acc = Acc()
    kind, arch = item["kind"], item["arch"]
    if item.get("scope") == "stateful":
        run_stateful(acc, kind, arch)
        acc.sample(dict(kind=kind, arch=arch, scope="stateful"), cap=1)
        acc.states = acc.evaluations
        acc.transitions = acc.counters.get("applies", 0) * (2 + 2 ** arch[0])
        acc.traces = acc.counters.get("applies", 0)
        acc.evaluations = max(acc.evaluations, acc.traces)
        return acc
    if item.get("scope") == "reused-objects":
        run_reused_objects(acc, kind)
        acc.states = acc.evaluations
        acc.transitions = acc.counters.get("applies", 0)
        acc.traces = acc.counters.get("applies", 0)
        return acc
    if item.get("scope") == "polarised":
        from .c10 import polarised_params
        for q in range(2):
            params = polarised_params(kind, arch, q)
            check_case(acc, kind, arch, params)
            acc.sample(dict(kind=kind, arch=arch, params=params, scope="polarised"), cap=1)
        acc.states = acc.evaluations
        acc.transitions = acc.counters.get("applies", 0) * (2 + 2 ** arch[0])
        acc.traces = acc.counters.get("applies", 0)
        acc.evaluations = max(acc.evaluations, acc.traces)
        return acc
    first = True
    for i, (tag, params) in enumerate(param_assignments(kind, arch, npat=1, dev=item.get("dev", 1), q0=item["q"])):
        if i % 2 != item["part"]:
            continue
        check_case(acc, kind, arch, params)
        if first:
            acc.sample(dict(kind=kind, arch=arch, tag=list(tag), params=params), cap=1)
            first = False
    acc.states = acc.evaluations
    acc.transitions = acc.counters.get("applies", 0) * (2 + 2 ** arch[0])
    acc.traces = acc.counters.get("applies", 0)
    acc.evaluations = max(acc.evaluations, acc.traces)
    return acc


def replay(case):
    acc = Acc()
    if case.get("layer") == "reused-objects":
        run_reused_objects(acc, case["kind"])
        return acc
    if case.get("history"):
        run_stateful(acc, case["kind"], case["arch"])
        return acc
    check_case(acc, case["kind"], case["arch"], case["params"])
    return acc
