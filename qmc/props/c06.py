"""C06 - each training step applies exactly the contrastive-divergence update.

E1 + E3: the real fit under an owned shuffle / scripted (or fully enumerated) Bernoulli draws, observed
through public seams only (recording optimizer, wrapped per-batch method and gibbs_steps).  Oracle:
reference CD update per batch with the parameters produced by all earlier updates.
"""
import math
import numpy as np
import torch

from ..common import lib, call, LibRaised, sha, EngineError, named_params
from ..engine.acc import Acc
from ..engine import tape as T
from ..engine.env import Owned, RngGuard, TapeDecider
from ..ref import grads as G
from ..ref import models as R
from . import _fit as F
from .c03 import NAME_MAP, ndiff, nsum, nscale

ID = "C06"
ENGINE_NAME = "E1 choice-tape explorer + E3 lattice"
RULE = ("one evaluation = one optimizer step of a real fit() compared with the reference contrastive-divergence update (per named "
        "parameter, exact SGD arithmetic); fits run under a decided shuffle (default + every single deviation for N<=3) and "
        "scripted Bernoulli draws (two scripts), and for the smallest scope under EVERY Bernoulli outcome; non-trivial = k >= 1 "
        "or negative batch differing from the positive batch; distinct = distinct (configuration, tape, batch index)")
ASSUMPTIONS = ["mixed states: the 1e-8 regulariser band of C03 applies to the positive phase",
               "optimizer is a recording subclass of torch.optim.SGD passed through the public optimizer= argument"]
COUNTS = ("states = nodes of the environment choice trees; transitions = optimizer steps compared with the reference update; "
          "traces_validated_against_impl = complete fits whose every step matched")
TOL = 1e-9


def bound(tier):
    q = tier == "quick"
    return dict(kinds=["positive", "complex", "mixed"], N=[1, 4], pos_batch_size=[1, 4], neg_batch_size=["default", 1, 2, 3], k=[0, 3],
                lr_scheduler=[[0.1, "none"], [1.0, "StepLR(gamma=0.5)"]] + ([] if q else [[0.1, "StepLR(gamma=0.5)"]]), epochs=[1, 2], starting_epoch="1; 3 (three epochs) for scheduler runs",
                shuffle="default + every 1-deviation (all N! perms, structured randint menu) for N<=3, default for N=4",
                bernoulli="two deterministic scripts; all outcomes for nv=nh=1, N=1, k<=2",
                numpy_integer_arguments="epochs / starting_epoch / pos_batch_size / neg_batch_size / k as numpy integers (4 configurations per kind)")


def plan(tier, seed):
    cfgs = []
    combos = [(0.1, False), (1.0, True)] + ([] if tier == "quick" else [(0.1, True)])
    for kind in ("positive", "complex", "mixed"):
        for N in (1, 2, 3, 4):
            for pb in (1, 2, 3, 4):
                if pb > N + 1:
                    continue
                for nb in (None, 1, 2, 3):
                    for k in (0, 1, 2, 3):
                        for ci, (lr, sched) in enumerate(combos):
                            for ep in (1, 2):
                                if tier == "quick":
                                    if kind == "mixed" and (N > 2 or k == 3):
                                        continue
                                    if kind != "positive" and ep == 2 and nb in (2, 3):
                                        continue
                                    if N == 4 and (k == 3 or nb == 2):
                                        continue
                                cfgs.append(dict(kind=kind, N=N, pb=pb, nb=nb, k=k, lr=lr, sched=sched, epochs=ep, script=(len(cfgs) % 2)))
                                if sched and ep == 2 and k == 1 and nb in (None, 2):
                                    # continuing a run: the schedule advances once per epoch wherever the epoch numbering starts
                                    cfgs.append(dict(kind=kind, N=N, pb=pb, nb=nb, k=k, lr=lr, sched=sched, epochs=3, e0=3, script=(len(cfgs) % 2)))
    for kind in ("positive", "complex", "mixed"):
        for N, pb, nb, k in ((3, 2, 1, 1), (3, 1, 2, 2), (2, 2, 1, 0), (3, 3, None, 1)):
            cfgs.append(dict(kind=kind, N=N, pb=pb, nb=nb, k=k, lr=0.1, sched=(k == 1), epochs=2 if kind != "mixed" else 1, script=0, npints=True))
    items = [dict(layer="fits", configs=cfgs[j:j + 6]) for j in range(0, len(cfgs), 6)]
    for kind in ("positive", "complex", "mixed"):
        for k in (1, 2):
            items.append(dict(layer="all-bernoulli", kind=kind, k=k))
        cons = []
        for sched in (False, True):
            for lr, lr2 in ((0.1, 0.05), (0.05, 0.3), (1.0, 0.1)):
                for N, pb, nb in ((2, 1, None), (3, 2, 1)):
                    cons.append(dict(kind=kind, N=N, pb=pb, nb=nb, k=1, lr=lr, lr2=lr2, sched=sched, epochs=2, script=0))
        items.append(dict(layer="consecutive", configs=cons))
    return items


def named_from_optimizer(st, entry, which):
    """map the optimizer's tensors back to NAMED parameters by object identity"""
    out = []
    ids = entry["ids"]
    for net in st.networks:
        rbm = getattr(st, net)
        d = {}
        for name, p in rbm.named_parameters():
            try:
                j = ids.index(id(p))
            except ValueError:
                return None
            t = entry[which][j]
            d[NAME_MAP[name]] = None if t is None else t.detach().numpy().copy()
        out.append(d)
    return out


def make_rec(log):
    class RecSGD(torch.optim.SGD):
        def step(self, closure=None):
            ps = [p for g in self.param_groups for p in g["params"]]
            before = [p.detach().clone() for p in ps]
            grads = [None if p.grad is None else p.grad.detach().clone() for p in ps]
            lr = self.param_groups[0]["lr"]
            r = super().step(closure)
            log.append(dict(ids=[id(p) for p in ps], before=before, grads=grads, after=[p.detach().clone() for p in ps], lr=lr))
            return r

    return RecSGD


def reference_update(kind, n, before_named, pos, neg_end, bases_rows, eps):
    """reference CD gradient at the given parameters: positive phase of (pos, bases) minus mean
    effective-energy gradient of neg_end rows (amplitude network only)"""
    leaves = G.make_leaves(before_named)
    bl = sorted(set(bases_rows) | {"Z" * n})
    Lx, _ = G.loss_table(kind, n, leaves, bl, eps=eps)
    bi = {b: j for j, b in enumerate(bl)}
    tot = 0
    for s, b in zip(pos, bases_rows):
        tot = tot + Lx[R.index_of(s), bi[b]]
    gpos = G.grad_named(tot / len(pos), leaves)
    tn = 0
    for v in neg_end:
        tn = tn + Lx[R.index_of(v), bi["Z" * n]]
    gneg = G.grad_named(tn / len(neg_end), leaves)
    exp = [dict(gpos[0])]
    for k_ in exp[0]:
        exp[0][k_] = gpos[0][k_] - gneg[0][k_]
    for extra in gpos[1:]:
        exp.append(extra)
    return exp


def run_fit(cfg, tape, acc, bern="script", st=None, shared=None):
    kind, N, pb, nb, k, lr, ep = cfg["kind"], cfg["N"], cfg["pb"], cfg["nb"], cfg["k"], cfg["lr"], cfg["epochs"]
    e0 = cfg.get("e0", 1)
    n = cfg.get("n", 2)
    L = lib()
    if st is not None:
        pass
    elif n == 1:
        st, arch, params = F.fresh_state(kind, 1, arch=[1, 1] if kind != "mixed" else [1, 1, 1])
    else:
        st, arch, params = F.fresh_state(kind, n)
    rows, bstr = F.dataset(n, N, "distinct")
    with_bases = kind != "positive"
    data = torch.tensor(rows, dtype=torch.double)
    bases = np.array([list(b) for b in bstr]) if with_bases else None
    log, counter, seen, chains, marks = [], [], [], [], []
    F.wrap_batches(st, seen, lambda: len(log))
    F.wrap_gibbs(st, chains)
    sched_base = []
    cb = L.callbacks.LambdaCallback(on_train_start=lambda s: sched_base.append(len(counter)), on_epoch_start=lambda s, e: marks.append(len(log)))
    if bern == "tape":
        inner = TapeDecider(tape)
        outer = F.FitDecider(tape, script=cfg.get("script", 0))

        def dec(name, func, args, kwargs):
            return inner(name, func, args, kwargs) if name == "bernoulli" else outer(name, func, args, kwargs)
    else:
        dec = F.FitDecider(tape, script=cfg.get("script", 0))
        dec.small = True
    kw = dict(input_bases=bases) if with_bases else {}
    if cfg["sched"]:
        kw.update(scheduler=F.make_counting_steplr(counter), scheduler_args=dict(step_size=1, gamma=0.5) if shared is None else shared["scheduler_args"])
    if shared is not None:
        kw["optimizer_args"] = shared["optimizer_args"]
    out = []
    try:
        with Owned(dec):
            if cfg.get("npints"):
                # the integer arguments as numpy integers (an element of a sweep array, the result of .sum())
                call(st.fit, data, epochs=np.int64(e0 + ep - 1), starting_epoch=np.int64(e0), pos_batch_size=np.int64(pb), neg_batch_size=None if nb is None else np.int32(nb),
                     k=np.int64(k), lr=lr, optimizer=make_rec(log), callbacks=[cb], **kw)
            else:
                call(st.fit, data, epochs=e0 + ep - 1, starting_epoch=e0, pos_batch_size=pb, neg_batch_size=nb, k=k, lr=lr, optimizer=make_rec(log), callbacks=[cb], **kw)
    except LibRaised as e:
        return [(f"cd:fit-raised:{e.kind}", dict(tb=e.tb))], 0
    nb_total = math.ceil(N / pb) * ep
    if not (len(log) == len(seen) == len(chains) == nb_total):
        out.append(("cd:not-one-optimizer-step-and-one-chain-per-batch", dict(steps=len(log), batches=len(seen), chains=len(chains), want=nb_total)))
        return out, len(log)
    if cfg["sched"]:
        stepped = len(counter) - (sched_base[0] if sched_base else 0)
        if stepped != ep:
            out.append(("cd:scheduler-not-advanced-once-per-epoch", dict(steps=stepped, epochs=ep)))
    for t, entry in enumerate(log):
        acc.count("steps")
        before = named_from_optimizer(st, entry, "before")
        grads = named_from_optimizer(st, entry, "grads")
        if before is None or grads is None:
            out.append(("cd:optimizer-does-not-hold-the-networks-parameters", None))
            break
        b = seen[t]["batch"]
        pos, neg = b[0], b[1]
        bb = ["".join(r) for r in b[2]] if with_bases and len(b) > 2 else ["Z" * n] * len(pos)
        ch = chains[t]
        if not (ch["k"] == k and seen[t]["k"] == k and tuple(ch["start"].shape) == tuple(neg.shape) and torch.equal(ch["start"], neg)):
            out.append(("cd:chain-not-k-steps-from-the-negative-batch", dict(step=t, k_used=ch["k"], k=k)))
            break
        nbs = nb or pb
        if not (len(neg) == nbs or (not with_bases and nbs == pb and tuple(neg.shape) == tuple(pos.shape) and torch.equal(neg, pos))):
            out.append(("cd:negative-phase-not-averaged-over-the-requested-negative-batch-size", dict(step=t, rows=len(neg), requested=nbs)))
            break
        if k == 0 and not torch.equal(ch["end"], ch["start"]):
            out.append(("cd:zero-step-chain-moved-away-from-the-negative-batch", dict(step=t)))
            break
        if any(g is None for net in grads for g in net.values()):
            out.append(("cd:parameter-without-gradient", dict(step=t)))
            break
        exp = reference_update(kind, n, before, pos.tolist(), ch["end"].tolist(), bb, 0.0)
        expr = reference_update(kind, n, before, pos.tolist(), ch["end"].tolist(), bb, 1e-8) if kind == "mixed" else exp
        e, sc = ndiff(grads, exp)
        band, _ = ndiff(exp, expr)
        acc.err(max(0.0, e - 1.000001 * band) / sc if np.isfinite(e) else 0.0)
        if not e <= TOL * sc + 1.000001 * band:
            out.append(("cd:gradient-handed-to-optimizer-differs-from-CD-update", dict(step=t, observed=grads, expected=exp, err=e)))
            break
        ei = sum(1 for m in marks if m <= t) - 1
        want_lr = lr * (0.5 ** ei if cfg["sched"] else 1.0)
        if not abs(entry["lr"] - want_lr) <= 1e-15:
            out.append(("cd:learning-rate-seen-by-batch", dict(step=t, lr=entry["lr"], want=want_lr, epoch_index=ei)))
            break
        for a, bf, g in zip(entry["after"], entry["before"], entry["grads"]):
            w = bf.add(g, alpha=-entry["lr"])
            if not (torch.equal(a, w) or float((a - w).abs().max()) <= 1e-14 * max(1.0, float(w.abs().max()))):
                out.append(("cd:parameters-did-not-move-by-minus-lr-times-gradient", dict(step=t)))
                break
        if t + 1 < len(log):
            if not all(torch.equal(x, y) for x, y in zip(entry["after"], log[t + 1]["before"])):
                out.append(("cd:parameters-changed-between-optimizer-steps", dict(step=t)))
                break
    return out, len(log)


def explore(acc, cfg, bern="script"):
    bnd = 1 if (cfg["N"] <= 3 and bern == "script") else (None if bern == "tape" else 0)
    stats = T.Stats()
    sigs = set()
    with RngGuard("observe"):
        for tp, (viols, steps) in T.explore(lambda t: run_fit(cfg, t, acc, bern), bound=bnd, stats=stats):
            acc.ev(max(steps, 1), nontrivial=cfg["k"] >= 1 or cfg["nb"] is not None)
            acc.outcome(sha([cfg["kind"], cfg["N"], cfg["pb"], cfg["k"], tp.choices[:6]]))
            for sig, detail in viols:
                if sig not in sigs:
                    sigs.add(sig)
                    d = dict(detail or {})
                    acc.viol(sig, dict(cfg, tape=tp.choices, bern=bern), observed=d.pop("observed", None), expected=d.pop("expected", None), detail=d)
    acc.states += stats.nodes
    acc.transitions += acc.counters.get("steps", 0) - acc.counters.get("_steps_seen", 0)
    acc.counters["_steps_seen"] = acc.counters.get("steps", 0)
    acc.traces += stats.executions
    acc.choice_points += stats.choice_points


def run_two_fits(cfg, tape, acc):
    """non-initial states: two consecutive fit() calls on the SAME model sharing the caller's
    optimizer_args / scheduler_args dict objects, with different learning rates"""
    st, arch, params = F.fresh_state(cfg["kind"], 2)
    shared = dict(optimizer_args={}, scheduler_args=dict(step_size=1, gamma=0.5))
    v1, s1 = run_fit(dict(cfg, lr=cfg["lr"]), tape, acc, st=st, shared=shared)
    if v1:
        return v1, s1
    for nm in ("compute_batch_gradients",):
        if nm in st.__dict__:
            del st.__dict__[nm]
    if "gibbs_steps" in st.rbm_am.__dict__:
        del st.rbm_am.__dict__["gibbs_steps"]
    v2, s2 = run_fit(dict(cfg, lr=cfg["lr2"]), tape, acc, st=st, shared=shared)
    return [(sig + ":second-fit-with-shared-argument-dicts", d) for sig, d in v2], s1 + s2


def run_item(item):
    acc = Acc()
    if item["layer"] == "consecutive":
        sigs = set()
        for cfg in item["configs"]:
            stats = T.Stats()
            with RngGuard("observe"):
                for tp, (viols, steps) in T.explore(lambda t: run_two_fits(cfg, t, acc), bound=0, stats=stats):
                    acc.ev(max(steps, 1))
                    acc.outcome(sha(["consecutive", cfg["kind"], cfg["lr"], cfg["lr2"], cfg["sched"]]))
                    for sig, detail in viols:
                        if sig not in sigs:
                            sigs.add(sig)
                            d = dict(detail or {})
                            acc.viol(sig, dict(cfg, tape=tp.choices, layer="consecutive"), observed=d.pop("observed", None), expected=d.pop("expected", None), detail=d)
            acc.states += stats.nodes
            acc.traces += stats.executions
        acc.transitions += acc.counters.get("steps", 0)
        acc.sample(dict(item["configs"][0], layer="two consecutive fits sharing optimizer_args/scheduler_args"), cap=1)
        return acc
    if item["layer"] == "fits":
        for cfg in item["configs"]:
            explore(acc, cfg)
        acc.sample(dict(item["configs"][0], shuffle="default + all 1-deviations"), cap=1)
    else:
        for sched in (False, True):
            cfg = dict(kind=item["kind"], N=1, pb=1, nb=None, k=item["k"], lr=0.5, sched=sched, epochs=1, n=1, script=0)
            explore(acc, cfg, bern="tape")
        acc.sample(dict(cfg, bernoulli="every outcome sequence"), cap=1)
    acc.counters.pop("_steps_seen", None)
    return acc


def replay(case):
    acc = Acc()
    if case.get("layer") == "consecutive":
        cfg = {k: case[k] for k in ("kind", "N", "pb", "nb", "k", "lr", "lr2", "sched", "epochs", "script")}
        tp, (viols, steps) = T.replay(lambda t: run_two_fits(cfg, t, acc), case["tape"])
        acc.ev(max(steps, 1))
        for sig, detail in viols:
            d = dict(detail or {})
            acc.viol(sig, case, observed=d.pop("observed", None), expected=d.pop("expected", None), detail=d)
        return acc
    cfg = {k: case[k] for k in ("kind", "N", "pb", "nb", "k", "lr", "sched", "epochs", "script", "e0", "npints") if k in case}
    if "n" in case:
        cfg["n"] = case["n"]
    tp, (viols, steps) = T.replay(lambda t: run_fit(cfg, t, acc, case.get("bern", "script")), case["tape"])
    acc.ev(max(steps, 1))
    for sig, detail in viols:
        d = dict(detail or {})
        acc.viol(sig, case, observed=d.pop("observed", None), expected=d.pop("expected", None), detail=d)
    return acc
