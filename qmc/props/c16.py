"""C16 - composite observables evaluate to the same arithmetic on their parts.

E3 over *programs*: every expression tree up to a node bound over observables and scalars is built
with the real operators and evaluated; oracle = interpreter of the same tree over leaf apply values.
"""
import itertools
from functools import lru_cache
import numpy as np
import torch

from ..common import lib, call, LibRaised, build_state, param_assignments, close, sha, tbits
from ..engine.acc import Acc

ID = "C16"
ENGINE_NAME = "E3 program lattice"
RULE = ("one evaluation = one expression tree built with the library's overloaded operators and applied to a batch, compared with "
        "an interpreter of the same tree over the leaves' apply values (Python semantics for scalar-only subtrees); trees that "
        "multiply two observables anywhere, or use a non-numeric operand, must raise when BUILT; non-trivial = tree contains an "
        "observable and at least one operator; distinct = distinct tree (operators, operand order, leaves)")
ASSUMPTIONS = ["leaf values come from the library's own built-in observables (C08 decides those)"]

ATOMS9 = [("L", "Z"), ("L", "N"), ("L", "X"), ("S", "0"), ("S", "m1"), ("S", "2"), ("S", "h"), ("S", "f"), ("S", "T"), ("S", "t"), ("S", "big")]
ATOMS5 = [("L", "Z"), ("L", "N"), ("S", "m1"), ("S", "h"), ("S", "f"), ("S", "t")]
# 0.1 and 2**24+1 are not representable in single precision: arithmetic must stay in double / Python numbers
SC = {"0": 0, "m1": -1, "2": 2, "h": 0.5, "f": np.float64(1.5), "T": True, "t": 0.1, "big": 16777217}
SHARDS = 16


def bound(tier):
    return dict(trees_over_11_atoms="all with <= 2 operator nodes" if tier == "quick" else "all with <= 3 operator nodes",
                trees_over_6_atoms="all with 3 operator nodes" if tier == "quick" else "(subsumed)",
                chains="every operator string of length <= %d over 7 one-sided operators, left- and right-nested" % (5 if tier == "quick" else 6),
                states="complex 2-qubit (all trees); all three types x n in {2,3} x {full space, 1-row batch} for trees with <= 1 operator node",
                rejected="observable*observable anywhere; operands 'a', None, [1], 1j",
                sampling_entry_points="sample(k=2, initial_state, overwrite=True) and statistics(5 samples, 2 chains) of every tree with <= 1 operator node, all drawn batches captured",
                outside_alphabet="scalar-only subtrees whose exact int value exceeds 64 bits (torch refuses tensor*int)")


@lru_cache(None)
def trees(k, small):
    atoms = tuple(ATOMS5 if small else ATOMS9)
    if k == 0:
        return atoms
    out = [("neg", t) for t in trees(k - 1, small)]
    for i in range(k):
        for op in "+-*":
            for l in trees(i, small):
                for r in trees(k - 1 - i, small):
                    out.append((op, l, r))
    return tuple(out)


def plan(tier, seed):
    items = []
    for k in (0, 1, 2):
        for sh in range(SHARDS if k == 2 else 1):
            items.append(dict(layer="trees", k=k, small=False, shard=sh, of=SHARDS if k == 2 else 1))
    for sh in range(SHARDS * 2):
        items.append(dict(layer="trees", k=3, small=(tier == "quick"), shard=sh, of=SHARDS * 2))
    items.append(dict(layer="chains", maxlen=5 if tier == "quick" else 6))
    items.append(dict(layer="junk"))
    for kind, arch in (("positive", [2, 2]), ("complex", [3, 2]), ("mixed", [2, 1, 2]), ("positive", [3, 2]), ("mixed", [3, 1, 1])):
        items.append(dict(layer="small-all-types", kind=kind, arch=arch))
    return items


class Reject(Exception):
    pass


class World:
    def __init__(self, kind="complex", arch=(2, 2), rows=None):
        L = lib()
        O = L.observables
        params = next(iter(param_assignments(kind, list(arch), npat=1, dev=0, q0=1)))[1]
        self.st = build_state(kind, list(arch), params)
        self.space = tbits(arch[0])
        if rows is not None:
            self.space = self.space[rows]
        self.LE = {"Z": O.SigmaZ(), "N": O.NeighbourInteraction(c=1), "X": O.SigmaX()}
        self.leafval = {k: call(o.apply, self.st, self.space).numpy().copy() for k, o in self.LE.items()}
        self.ObservableBase = O.ObservableBase
        self.memo_build = {}
        self.memo_val = {}

    def build(self, t):
        if t in self.memo_build:
            r = self.memo_build[t]
            if isinstance(r, Exception):
                raise r
            return r
        try:
            if t[0] == "L":
                r = self.LE[t[1]]
            elif t[0] == "S":
                r = SC[t[1]]
            elif t[0] == "neg":
                r = -self.build(t[1])
            else:
                a, b = self.build(t[1]), self.build(t[2])
                r = a + b if t[0] == "+" else a - b if t[0] == "-" else a * b
        except Exception as e:  # noqa: BLE001
            self.memo_build[t] = e
            raise
        self.memo_build[t] = r
        return r

    def interp(self, t):
        if t in self.memo_val:
            r = self.memo_val[t]
            if r is None:
                raise Reject()
            return r
        try:
            if t[0] == "L":
                r = ("obs", self.leafval[t[1]])
            elif t[0] == "S":
                r = ("num", SC[t[1]])
            elif t[0] == "neg":
                k, v = self.interp(t[1])
                r = (k, -v)
            else:
                (ka, a), (kb, b) = self.interp(t[1]), self.interp(t[2])
                if t[0] == "*" and ka == "obs" and kb == "obs":
                    raise Reject()
                kind = "obs" if "obs" in (ka, kb) else "num"
                r = (kind, a + b if t[0] == "+" else a - b if t[0] == "-" else a * b)
        except Reject:
            self.memo_val[t] = None
            raise
        self.memo_val[t] = r
        return r


def kinds_of(w, t):
    def k(x):
        try:
            return w.interp(x)[0]
        except Reject:
            return "rejected"
    if t[0] in "+-*":
        return f"{t[0]}:{k(t[1])},{k(t[2])}"
    if t[0] == "neg":
        return f"neg:{k(t[1])}"
    return "leaf"


def size(t):
    return 0 if t[0] in "LS" else 1 + sum(size(x) for x in t[1:])


def beyond_int64(w, t):
    """A scalar-only subtree whose exact Python-int value does not fit a 64-bit integer (big*big*big): torch
    cannot multiply a tensor by such a scalar at all (OverflowError), so the tree is outside the alphabet."""
    if t[0] in "LS":
        return False
    try:
        k, v = w.interp(t)
    except Reject:
        k, v = "rejected", None
    if k == "num" and isinstance(v, int) and not isinstance(v, bool) and abs(v) >= 2 ** 63:
        return True
    return any(beyond_int64(w, x) for x in t[1:])


def check_tree(acc, w, t, stats=False):
    case = dict(tree=t)
    nontriv = size(t) > 0
    if size(t) >= 2 and beyond_int64(w, t):
        acc.outcome("outside-alphabet:int-scalar-beyond-64-bit")
        return
    try:
        kind, want = w.interp(t)
    except Reject:
        acc.ev(1, nontrivial=True)
        try:
            w.build(t)
        except (TypeError, ValueError):
            acc.outcome("rejected")
            return
        except Exception as e:  # noqa: BLE001
            acc.viol("composite:nonlinear-combination-raised-unexpected-error", case, observed=repr(e), expected="TypeError/ValueError when built")
            return
        acc.viol("composite:nonlinear-combination-not-rejected:" + kinds_of(w, t), case, expected="an error when built")
        return
    acc.ev(1, nontrivial=nontriv and kind == "obs")
    try:
        got = w.build(t)
    except Exception as e:  # noqa: BLE001
        acc.viol("composite:linear-combination-refused:" + kinds_of(w, t), case, observed=repr(e), expected="an observable")
        return
    if kind == "num":
        if isinstance(got, w.ObservableBase) or not (got == want):
            acc.viol("composite:scalar-subtree", case, observed=repr(got), expected=repr(want))
        return
    if not isinstance(got, w.ObservableBase):
        acc.viol("composite:not-an-observable:" + kinds_of(w, t), case, observed=repr(got))
        return
    try:
        if len(w.space) > 1 and size(t) <= 2:
            # the same composite object applied to another batch first (no value may be remembered) -
            # a different tensor, and the SAME tensor object advanced in place (what statistics() does)
            v0 = call(got.apply, w.st, torch.flip(w.space, [0]))
            v0 = np.broadcast_to(np.asarray(v0.numpy() if isinstance(v0, torch.Tensor) else v0, dtype=float), want.shape)
            if not close(v0, want[::-1], 1e-12):
                acc.viol("composite:value-on-second-batch:" + kinds_of(w, t), case, observed=v0, expected=want[::-1])
                return
            b = w.space.clone()
            call(got.apply, w.st, b)
            b.copy_(torch.flip(w.space, [0]))
            v1 = call(got.apply, w.st, b)
            v1 = np.broadcast_to(np.asarray(v1.numpy() if isinstance(v1, torch.Tensor) else v1, dtype=float), want.shape)
            if not close(v1, want[::-1], 1e-12):
                acc.viol("composite:value-after-batch-advanced-in-place:" + kinds_of(w, t), case, observed=v1, expected=want[::-1])
                return
        v = call(got.apply, w.st, w.space)
        v = np.broadcast_to(np.asarray(v.numpy() if isinstance(v, torch.Tensor) else v, dtype=float), want.shape)
    except LibRaised as e:
        acc.viol("composite:apply-raised:" + kinds_of(w, t), case, observed=e.tb)
        return
    except Exception as e:  # noqa: BLE001
        acc.viol("composite:apply-malformed:" + kinds_of(w, t), case, observed=repr(e))
        return
    if not close(v, want, 1e-12):
        acc.viol("composite:value:" + kinds_of(w, t), case, observed=v, expected=want)
        return
    acc.outcome(sha(np.round(want, 9)))
    if stats:
        try:
            s = call(got.statistics_from_samples, w.st, w.space)
            n = len(want)
            mean = float(np.mean(want))
            var = float(np.var(want, ddof=1)) if n > 1 else float("nan")
            # a one-pass variance of values with a large common offset carries rounding ~ eps*|mean|/std
            vt = max(1e-12, 1e-14 * abs(mean) / max(np.sqrt(var), 1e-300)) if n > 1 and var == var and var > 0 else 1e-12
            scale = max(1.0, float(np.max(np.abs(want))))
            ok = (s["num_samples"] == n and close(s["mean"], mean, 1e-12, at=1e-12 * scale)
                  and (close(s["variance"], var, vt, at=(1e-12 if var > 0 else 1e-14 * max(1.0, abs(mean)))) if n > 1 else (s["variance"] != s["variance"]))
                  and (close(s["std_error"], np.sqrt(var / n), vt, at=(1e-12 if var > 0 else 1e-7 * max(1.0, abs(mean)) ** 0.5)) if n > 1 else True))
            if not ok:
                acc.viol("composite:statistics_from_samples", case, observed=s, expected=dict(mean=mean, variance=var, num_samples=n))
        except LibRaised as e:
            acc.viol("composite:statistics-raised", case, observed=e.tb)
        if len(w.space) == 2 ** w.space.shape[1]:
            drivers(acc, w, t, got, want, case)


def drivers(acc, w, t, got, want, case):
    """The sampling entry points of a composite: sample() and statistics() must evaluate the composite on the
    very batch(es) ONE chain produced - every batch the state's sample() returned is captured, per-sample
    expectations are looked up in the (already verified) full-space values."""
    lookup = {tuple(int(x) for x in r): float(v) for r, v in zip(w.space.tolist(), want)}
    st = w.st
    cap = []
    orig = st.sample

    def wrapped(*a, **k):
        r = orig(*a, **k)
        cap.append(r.clone())
        return r
    st.sample = wrapped
    try:
        torch.manual_seed(3)
        s0 = w.space[[1, 0, len(w.space) - 1]].clone()
        v = call(got.sample, st, 2, initial_state=s0, overwrite=True)
        v = np.asarray(v.numpy() if isinstance(v, torch.Tensor) else v, dtype=float)
        if len(cap) > 1:
            acc.viol("composite:sample-entry-point-draws-more-than-one-batch:" + kinds_of(w, t), case, observed=len(cap), expected=1)
        else:
            # the batch that was evaluated: what the state's sample() returned, or - should an implementation advance the
            # chain without going through it - the caller's start state, which overwrite=True leaves holding the final states
            batch = cap[0] if cap else s0
            exp = np.array([lookup[tuple(int(x) for x in r)] for r in batch.tolist()])
            if not close(np.broadcast_to(v, exp.shape), exp, 1e-12) or not torch.equal(s0, batch):
                acc.viol("composite:sample-entry-point-value:" + kinds_of(w, t), case, observed=v, expected=exp)
        del cap[:]
        torch.manual_seed(4)
        sres = call(got.statistics, st, 5, num_chains=2, burn_in=1, steps=1)
        if not cap:
            acc.count("statistics-entry-point-not-observable")
            return
        xs = [lookup[tuple(int(x) for x in r)] for b in cap for r in b.tolist()]
        n = len(xs)
        mean = float(np.mean(xs))
        var = float(np.var(xs, ddof=1))
        vt = max(1e-10, 1e-13 * abs(mean) / max(np.sqrt(var), 1e-300)) if var > 0 else 1e-10
        scale = max(1.0, float(np.max(np.abs(xs))))
        ok = (sres["num_samples"] == n and n >= 5 and close(sres["mean"], mean, 1e-12, at=1e-12 * scale)
              and close(sres["variance"], var, vt, at=(1e-12 if var > 0 else 1e-14 * max(1.0, abs(mean)) ** 2 * 1e2))
              and close(sres["std_error"], np.sqrt(var / n), vt, at=(1e-12 if var > 0 else 1e-7 * max(1.0, abs(mean)))))
        if not ok:
            acc.viol("composite:statistics-entry-point:" + kinds_of(w, t), case, observed=sres, expected=dict(mean=mean, variance=var, num_samples=n))
    except LibRaised as e:
        acc.viol("composite:sampling-entry-point-raised:" + kinds_of(w, t), case, observed=e.tb)
    finally:
        del st.sample


ONE_SIDED = [("neg",), ("+r", "2"), ("+l", "2"), ("-r", "h"), ("-l", "h"), ("*r", "m1"), ("*l", "f")]


def chain_tree(leaf, ops):
    t = leaf
    for o in ops:
        if o[0] == "neg":
            t = ("neg", t)
        else:
            op, side = o[0][0], o[0][1]
            s = ("S", o[1])
            t = (op, t, s) if side == "r" else (op, s, t)
    return t


def run_item(item):
    acc = Acc()
    layer = item["layer"]
    if layer == "trees":
        w = World()
        ts = trees(item["k"], item["small"])
        n = 0
        for i in range(item["shard"], len(ts), item["of"]):
            check_tree(acc, w, ts[i], stats=item["k"] <= 1)
            n += 1
        if n:
            acc.sample(dict(tree=ts[item["shard"]], operator_nodes=item["k"]), cap=1)
    elif layer == "chains":
        w = World()
        for leaf in (("L", "Z"), ("L", "N")):
            for ln in range(1, item["maxlen"] + 1):
                for ops in itertools.product(ONE_SIDED, repeat=ln):
                    check_tree(acc, w, chain_tree(leaf, ops))
        acc.sample(dict(chain=[list(o) for o in ONE_SIDED[:3]], leaf="SigmaZ", depth=item["maxlen"]), cap=1)
    elif layer == "small-all-types":
        n = item["arch"][0]
        for rows in (None, [2 ** n - 2]):
            w = World(item["kind"], tuple(item["arch"]), rows)
            for k in (0, 1):
                for t in trees(k, False):
                    check_tree(acc, w, t, stats=True)
        acc.sample(dict(kind=item["kind"], arch=item["arch"], trees="all with <= 1 operator node", batches=["full space", "one row"]), cap=1)
    else:
        L = lib()
        O = L.observables
        forms = [("o+j", lambda o, j: o + j), ("j+o", lambda o, j: j + o), ("o*j", lambda o, j: o * j), ("j*o", lambda o, j: j * o),
                 ("o-j", lambda o, j: o - j), ("j-o", lambda o, j: j - o)]
        for jn, junk in (("str", "a"), ("None", None), ("list", [1]), ("complex", 1j)):
            for fn, f in forms:
                for on, ob in (("SigmaZ", O.SigmaZ()), ("composite", O.SigmaZ() + 1)):
                    acc.ev(1)
                    try:
                        r = f(ob, junk)
                    except Exception:  # noqa: BLE001
                        acc.outcome("rejected")
                        continue
                    acc.viol("composite:non-numeric-operand-not-rejected", dict(operand=jn, form=fn, on=on), observed=repr(r), expected="an error when built")
        for a, b in ((O.SigmaZ(), O.SigmaX()), (O.SigmaZ() + 1, O.SigmaZ()), (2 * O.SigmaZ(), -O.SigmaX())):
            acc.ev(1)
            try:
                r = a * b
                acc.viol("composite:nonlinear-combination-not-rejected:*:obs,obs", dict(form="observable*observable"), observed=repr(r))
            except (TypeError, ValueError):
                acc.outcome("rejected")
        acc.sample(dict(junk_operands=["'a'", "None", "[1]", "1j"], forms=[f for f, _ in forms]), cap=1)
    acc.states = acc.evaluations
    acc.transitions = acc.evaluations
    acc.traces = acc.evaluations
    return acc


def replay(case):
    acc = Acc()
    if "tree" in case:
        def tup(x):
            return tuple(tup(y) if isinstance(y, list) else y for y in x)
        check_tree(acc, World(), tup(case["tree"]), stats=True)
    else:
        return run_item(dict(layer="junk"))
    return acc
