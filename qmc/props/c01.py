"""C01 - wavefunction states satisfy the Born rule they are defined by.

Engine E3 (exhaustive input lattice on the real code) against the brute-force hidden-unit marginal.
"""
import itertools
import numpy as np
import torch

from ..common import (lib, call, LibRaised, build_state, param_assignments, full_product, split_binary,
                      close, maxerr, sha, A3, net_sizes)
from ..engine.acc import Acc
from ..ref import models as R

ID = "C01"
ENGINE_NAME = "E3 input lattice"
RULE = ("one case = (state type, architecture, full parameter assignment); every case is evaluated on all 2^n basis "
        "states in batched, 1-D and 2-row call forms and compared with the brute-force sum over hidden "
        "configurations; non-trivial = at least one bias non-zero and num_hidden*num_visible weights non-zero; "
        "distinct = distinct (type, architecture, parameter vector)")
ASSUMPTIONS = ["parameter values restricted to the generic alphabet A5, full products over A3+{0} on tiny "
               "architectures and 1-/2-deviations to {0,+-7,+-30}"]
TOL = 1e-9


def bound(tier):
    return dict(num_visible=[1, 4 if tier == "quick" else 5], num_hidden=[1, 4 if tier == "quick" else 6],
                patterns=3, deviations=1 if tier == "quick" else 2,
                deviation_values=[-30, -7, 0, 7, 30],
                full_product_archs=[[1, 1], [1, 2], [2, 1], [2, 2]] + ([] if tier == "quick" else [[1, 3], [3, 1]]),
                call_forms=["whole space batch", "every state 1-D", "every adjacent 2-row batch"])


def plan(tier, seed):
    nvs = range(1, 5) if tier == "quick" else range(1, 6)
    nhs = range(1, 5) if tier == "quick" else range(1, 7)
    items = []
    for kind in ("positive", "complex"):
        for nv in nvs:
            for nh in nhs:
                arch = [nv, nh]
                npar = nv * nh + nv + nh
                dev = 2 if (tier == "thorough" and npar <= 12) else 1
                for q in range(3):
                    items.append(dict(kind=kind, arch=arch, scope="patdev", q=q, dev=dev))
        fulls = [[1, 1], [1, 2], [2, 1], [2, 2]] + ([] if tier == "quick" else [[1, 3], [3, 1]])
        for arch in fulls:
            for net in range(1 if kind == "positive" else 2):
                for part in range(3):
                    items.append(dict(kind=kind, arch=arch, scope="full", net=net, part=part))
        for arch in ([1, 1], [2, 3], [3, 2], [4, 4]):
            items.append(dict(kind=kind, arch=arch, scope="stateful"))
        # moderately large parameters inside the stated domain (|x| up to 10, one sign or mixed): log-probabilities
        # of several hundred, far beyond single-precision range but far from double overflow
        for arch in [[2, 2], [3, 2], [2, 4], [3, 3], [4, 4]] + ([] if tier == "quick" else [[5, 3], [5, 6]]):
            items.append(dict(kind=kind, arch=arch, scope="large"))
    return items


def _assignments(item):
    kind, arch = item["kind"], item["arch"]
    if item["scope"] == "large":
        from ..common import pattern
        sizes = net_sizes(kind, arch)
        for c in (4.0, 7.0, 10.0, -7.0):
            yield ("large", "uniform", c), [[c] * sizes[0]] + [pattern(n, 1, 1) for n in sizes[1:]]
        for q in range(3):
            for f in (3.0, 5.0):
                yield ("large", "scaled-pattern", q, f), [[f * x for x in pattern(sizes[0], q, 0)]] + [[f * x for x in pattern(n, q, 1)] for n in sizes[1:]]
        return
    if item["scope"] == "patdev":
        yield from param_assignments(kind, arch, npat=1, dev=item["dev"], q0=item["q"])
    else:
        npar = net_sizes(kind, arch)[0]
        values = A3 + [0.0] if npar <= 5 else A3
        for i, x in enumerate(full_product(kind, arch, values, net=item["net"])):
            if i % 3 == item["part"]:
                yield x


def check_case(acc, kind, arch, params, tag=None, st=None, history=None):
    case = dict(kind=kind, arch=arch, params=params) if history is None else dict(kind=kind, arch=arch, params=params, history=history)
    L = lib()
    st = build_state(kind, arch, params) if st is None else st
    n = arch[0]
    from ..common import space_of
    space = space_of(st, n) if history is not None else call(st.generate_hilbert_space)
    lam = split_binary(params[0], arch)
    la = R.rbm_logp(*lam)
    logZ = R.lse(la, 0)
    acc.ev(1, nontrivial=any(x != 0 for x in params[0][arch[0] * arch[1]:]))

    def bad(sig, obs, exp, detail=None):
        acc.viol(sig, case, observed=obs, expected=exp, detail=detail, tol=TOL)

    try:
        p = call(st.probability, space).numpy()
        Z = float(call(st.normalization, space))
        psi = L.cplx.numpy(call(st.psi, space))
        amp = call(st.amplitude, space).numpy()
        phs = call(st.phase, space).numpy()
    except LibRaised as e:
        bad(f"born:raised:{e.kind}", e.tb, None)
        return
    # probability == hidden-unit marginal (log domain: extremes spread values over many decades)
    with np.errstate(all="ignore"):
        lp = np.log(p)
    if not close(lp, la, TOL):
        bad("born:probability-vs-marginal", lp, la)
    acc.err(maxerr(lp, la))
    if not close(np.log(Z) if Z > 0 else np.nan, logZ, TOL):
        bad("born:normalization-vs-sum", Z, float(np.exp(logZ)))
    if not close(p.sum() / Z, 1.0, TOL):
        bad("born:probabilities-do-not-sum-to-one", float(p.sum() / Z), 1.0)
    try:
        pn = call(st.probability, space, Z).numpy()
        Z2 = float(call(st.compute_normalization, space))
        if not close(np.log(pn), la - logZ, TOL) or not close(pn.sum(), 1.0, TOL) or Z2 != Z:
            bad("born:normalised-probability", pn, np.exp(la - logZ))
    except LibRaised as e:
        bad(f"born:raised:{e.kind}", e.tb, None)
    mod2 = np.abs(psi) ** 2
    # torch's softplus switches to the identity above its threshold of 20, which drops log1p(exp(-x)) <= 2.1e-9
    # per saturated hidden unit from the log-probability: a floating-point approximation of the library, not
    # a property violation.  The ratio oracles get exactly that much slack and no more (0 for unsaturated cases).
    X = np.array(list(itertools.product([0.0, 1.0], repeat=n))) @ lam[0].T + lam[2]
    slack = float(np.where(X > 20, np.log1p(np.exp(-np.maximum(X, 20))), 0.0).sum(axis=1).max())
    if not close(mod2 / np.exp(la), np.ones_like(la), TOL + 1.01 * slack):
        bad("born:psi-modulus-vs-probability", mod2, np.exp(la))
    if not close(amp / np.exp(la / 2), np.ones_like(la), TOL + 1.01 * slack):
        bad("born:amplitude", amp, np.exp(la / 2))
    if kind == "complex":
        mu = split_binary(params[1], arch)
        phi = R.rbm_logp(*mu) / 2
        if not close(phs, phi, TOL):
            bad("born:phase-not-half-negated-energy", phs, phi)
        u_obs = psi / np.abs(psi)
        if not close(u_obs, np.exp(1j * phi), 1e-9):
            bad("born:psi-phase", u_obs, np.exp(1j * phi))
        # modulus depends only on the amplitude network: change the phase network, amplitude bit-identical
        st2 = build_state(kind, arch, [params[0], [-(x + 0.123) for x in params[1]]])
        amp2 = call(st2.amplitude, space).numpy()
        p2 = call(st2.probability, space).numpy()
        if not (np.array_equal(amp, amp2) and np.array_equal(p, p2)):
            bad("born:modulus-depends-on-phase-network", amp2, amp)
        psi2 = L.cplx.numpy(call(st2.psi, space))
        if not close(np.abs(psi2), np.abs(psi), TOL):
            bad("born:modulus-depends-on-phase-network", np.abs(psi2), np.abs(psi))
        # the same must hold for a state built from a user-supplied RBM (module= path): set the two
        # networks to different values afterwards and compare with the reference for the AMPLITUDE values
        if tag is not None and tag[0] == "pat":
            from ..common import set_flat
            try:
                m = L.BinaryRBM(arch[0], arch[1], gpu=False)
                st3 = call(L.ComplexWaveFunction, arch[0], gpu=False, module=m)
                set_flat(st3.rbm_am, params[0])
                set_flat(st3.rbm_ph, params[1])
                set_flat(st3.rbm_am, params[0])
                p3 = call(st3.probability, space).numpy()
                ph3 = call(st3.phase, space).numpy()
                with np.errstate(all="ignore"):
                    if not close(np.log(p3), la, TOL) or not close(ph3, phi, TOL):
                        bad("born:module-constructed-state-differs-from-definition", [p3, ph3], [np.exp(la), phi])
            except LibRaised as e:
                bad(f"born:module-construction-raised:{e.kind}", e.tb, None)
    else:
        if not (np.all(psi.imag == 0) and np.all(psi.real >= 0) and np.all(phs == 0)):
            bad("born:positive-state-not-real-nonnegative", psi, np.abs(psi))
    # call forms: every state as a 1-D vector, adjacent 2-row batches
    try:
        for k in range(2 ** n):
            v = space[k]
            p1 = call(st.probability, v)
            a1 = call(st.amplitude, v)
            f1 = call(st.phase, v)
            s1 = call(st.psi, v)
            ok = (p1.dim() == 0 and a1.dim() == 0 and f1.dim() == 0 and tuple(s1.shape) == (2,)
                  and close(float(p1), p[k], 1e-12) and close(float(a1), amp[k], 1e-12)
                  and close(float(f1), phs[k], 1e-12)
                  and close(s1.numpy(), np.array([psi[k].real, psi[k].imag]), 1e-12))
            if not ok:
                bad("born:1d-call-form", [float(p1.reshape(-1)[0]), list(s1.shape)], [float(p[k]), [2]], detail=dict(row=k))
                break
        for k in range(2 ** n - 1):
            sub = space[k:k + 2]
            s2 = L.cplx.numpy(call(st.psi, sub))
            pp = call(st.probability, sub).numpy()
            if not (close(s2, psi[k:k + 2], 1e-12) and close(pp, p[k:k + 2], 1e-12)):
                bad("born:2-row-call-form", s2, psi[k:k + 2], detail=dict(rows=[k, k + 1]))
                break
    except LibRaised as e:
        bad(f"born:raised:{e.kind}", e.tb, None, detail="1-D / 2-row call form")
    # results handed out earlier stay what they were: a later call on another input of the same shape (a loop that
    # collects psi / probabilities state by state, a before/after comparison) must not write into them
    try:
        fl = torch.flip(space, [0])
        for nm, fn in (("psi", st.psi), ("probability", st.probability), ("amplitude", st.amplitude), ("phase", st.phase)):
            r1 = call(fn, space)
            c1 = r1.clone()
            r2 = call(fn, fl)
            v1 = call(fn, space[0])
            k1 = v1.clone()
            v2 = call(fn, space[2 ** n - 1])
            if not (torch.equal(r1, c1) and torch.equal(v1, k1)):
                bad("born:earlier-result-overwritten-by-a-later-call", r1.numpy(), c1.numpy(), detail=dict(function=nm))
                break
    except LibRaised as e:
        bad(f"born:raised:{e.kind}", e.tb, None, detail="repeated calls")
    # batches with repeated basis states that are NOT grouped (what a set of Monte-Carlo samples looks like)
    try:
        D_ = 2 ** n
        for nm, ix in (("a,b,a,c,b", [0, D_ - 1, 0, 1 % D_, D_ - 1]), ("tiled-space", list(range(D_)) * 2), ("descending-with-repeat", list(range(D_ - 1, -1, -1)) + [D_ // 2]),
                       ("descending", list(range(D_ - 1, -1, -1))), ("unordered-subset", [D_ - 1, 0] + ([D_ // 2] if D_ > 2 else []))):
            sub = space[ix]
            keep_ = sub.clone()
            o_psi = L.cplx.numpy(call(st.psi, sub))
            o_p = call(st.probability, sub).numpy()
            o_a = call(st.amplitude, sub).numpy()
            o_f = call(st.phase, sub).numpy()
            if not (close(o_psi, psi[ix], 1e-12) and close(o_p, p[ix], 1e-12) and close(o_a, amp[ix], 1e-12) and close(o_f, phs[ix], 1e-12)) or not torch.equal(sub, keep_):
                bad("born:batch-with-ungrouped-repeats", [o_psi, o_p], [psi[ix], p[ix]], detail=dict(batch=nm))
                break
    except LibRaised as e:
        bad(f"born:raised:{e.kind}", e.tb, None, detail="batch with repeats")
    # basis states given in another dtype (samples loaded from files are often float32 / integer): an
    # implementation may refuse them, but it must never return different numbers
    if tag is not None and tag[0] in ("pat", "stateful"):
        for dt in (torch.float32, torch.int64, torch.bool):
            try:
                sv = space.to(dt)
                o_psi = L.cplx.numpy(call(st.psi, sv))
                o_p = call(st.probability, sv).numpy()
                o_a = call(st.amplitude, sv).numpy()
                o_f = call(st.phase, sv).numpy()
            except (LibRaised, Exception):  # noqa: BLE001
                acc.count("non-double-input-refused")
                continue
            acc.count("non-double-input-accepted")
            if not (close(o_psi, psi, 1e-12) and close(o_p, p, 1e-12) and close(o_a, amp, 1e-12) and close(o_f, phs, 1e-12)):
                bad("born:values-depend-on-input-dtype", [o_psi, o_p], [psi, p], detail=dict(dtype=str(dt)))
                break
    acc.outcome(sha(np.round(la - logZ, 6)))


def run_item(item):
    acc = Acc()
    first = True
    if item["scope"] == "stateful":
        run_stateful(acc, item)
        return acc
    for tag, params in _assignments(item):
        check_case(acc, item["kind"], item["arch"], params, tag)
        if first:
            acc.sample(dict(kind=item["kind"], arch=item["arch"], scope=item["scope"], tag=list(tag), params=params), cap=1)
            first = False
    acc.states = acc.evaluations
    acc.transitions = acc.evaluations * (2 ** item["arch"][0]) * 2
    acc.traces = acc.evaluations
    return acc


def run_stateful(acc, item):
    """non-initial states: one LIVE model is evaluated, updated in place (four styles), evaluated again"""
    from ..common import update_params, UPDATE_STYLES, pattern, net_sizes
    kind, arch = item["kind"], item["arch"]
    sizes = net_sizes(kind, arch)
    seq = [[pattern(n, q, r) for r, n in enumerate(sizes)] for q in range(7)]
    st = build_state(kind, arch, seq[0])
    check_case(acc, kind, arch, seq[0], ("stateful", 0), st=st, history=[])
    hist = []
    for i, style in enumerate(UPDATE_STYLES):
        hist = hist + [dict(update=style, to_pattern=i + 1)]
        update_params(st, seq[i + 1], style)
        check_case(acc, kind, arch, seq[i + 1], ("stateful", i + 1), st=st, history=hist)
    acc.sample(dict(kind=kind, arch=arch, scope="stateful", history=hist), cap=1)
    acc.states = acc.evaluations
    acc.transitions = acc.evaluations * (2 ** arch[0]) * 2
    acc.traces = acc.evaluations


def replay(case):
    acc = Acc()
    if case.get("history"):
        from ..common import update_params, pattern, net_sizes
        sizes = net_sizes(case["kind"], case["arch"])
        st = build_state(case["kind"], case["arch"], [pattern(n, 0, r) for r, n in enumerate(sizes)])
        call(st.psi, call(st.generate_hilbert_space))
        call(st.probability, call(st.generate_hilbert_space))
        for h in case["history"]:
            update_params(st, [pattern(n, h["to_pattern"], r) for r, n in enumerate(sizes)], h["update"])
            if h is not case["history"][-1]:
                call(st.psi, call(st.generate_hilbert_space))
        check_case(acc, case["kind"], case["arch"], case["params"], st=st, history=case["history"])
        return acc
    check_case(acc, case["kind"], case["arch"], case["params"])
    return acc
