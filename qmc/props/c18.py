"""C18 - early stopping halts exactly when its documented convergence rule is met.

E3 over scripted histories: EVERY value sequence over a 5-value alphabet up to the length bound x
patience x periods x criterion x tolerance x evaluator kind, driven through the real callbacks (all)
and through the real fit (shorter sequences); oracle = reference decision procedure.
"""
import contextlib
import io
import itertools
import math
import numpy as np
import torch

from ..common import lib, call, LibRaised, sha, EngineError
from ..engine.acc import Acc

ID = "C18"
ENGINE_NAME = "E3 history lattice (scripted monitored values) + E4 TLC bridge (EarlyStop.tla)"
RULE = ("one evaluation = one scripted run (value sequence, patience, evaluator period, stopper period, criterion, tolerance, "
        "evaluator kind, drive mode) on the real EarlyStopping + evaluator callbacks, compared with the reference decision "
        "procedure; non-trivial = at least patience+1 evaluations happen; distinct = distinct parameter tuple")
ASSUMPTIONS = ["relative criterion with a reference value of exactly 0: deviation is infinite (must not stop; an exception is tolerated) "
               "or 0/0 (unspecified: anything accepted from that epoch on)",
               "direct drive calls evaluator.on_epoch_end then stopper.on_epoch_end per epoch, as fit does (C12 decides fit's side)"]
COUNTS = ("states = scripted configurations; transitions = epochs delivered to the callbacks; traces_validated_against_impl = runs whose "
          "stop epoch and last_epoch matched the reference")
V = [-1.0, 0.0, 1.0, 1.04, 2.0]
V4 = [-1.0, 0.0, 1.0, 1.04]
INF = float("inf")
TOLS = [0.0, 0.05, 1.5, INF]
FINE = [1.0, 1.0 + 2e-8, 1.0 + 4e-8, 1.0 + 8e-8]   # gaps 2, 4, 6, 8 (x 1e-8): never equal to a tolerance below
FINE_TOLS = [1e-8, 3e-8, 5e-8]
PERIODS = [(1, 1), (1, 2), (1, 3), (2, 1), (2, 2), (2, 3), (3, 2)]
PERIODS_THOROUGH = PERIODS + [(4, 3), (5, 2), (3, 1)]


def bound(tier):
    q = tier == "quick"
    return dict(values=V if q else "5 values to length 4, 4 values to length 6", max_length=4 if q else 6, patience=[1, 3] if q else [1, 5], periods=PERIODS,
                criteria=["relative", "absolute", "variance"], tolerances=["0", "0.05", "1.5", "inf"], evaluators=["MetricEvaluator", "ObservableEvaluator"],
                through_fit="sequences of length <= 3" if q else "sequences of length <= 4",
                fine_scale=dict(values=FINE, tolerances=FINE_TOLS, max_length=3 if q else 4, patience=[1, 2]),
                reuse="one evaluator + stopper over two runs (all pairs of sequences of length 2..3 over 4 values), with and without clear_history()",
                scheduler="through-fit runs repeated with scheduler=StepLR for periods (1,1)")


def plan(tier, seed):
    items = []
    for L in (1, 2, 3, 4):
        for first in V:
            for kind in ("metric", "obs"):
                items.append(dict(L=L, first=first, kind=kind, vals=V, pmax=3, fit=(L <= (3 if tier == "quick" else 4))))
    if tier == "thorough":
        for L in (5, 6):
            for first in V4:
                for second in V4:
                    for kind in ("metric", "obs"):
                        items.append(dict(L=L, first=first, second=second, kind=kind, vals=V4, pmax=5, fit=False))
    # monitored values that are not numbers: a NaN deviation is not below any tolerance
    NANV = V + [float("nan")]
    for L in (2, 3):
        for first in range(len(NANV)):
            for kind in ("metric", "obs"):
                items.append(dict(L=L, first_index=first, kind=kind, vals="nan", pmax=2, fit=(L == 2)))
    # values that differ only in the 8th significant digit, tolerances between their gaps: the deviation must be
    # formed in double precision (a float32 round trip of the evaluations moves every decision here)
    for L in (2, 3) + (() if tier == "quick" else (4,)):
        for first in range(len(FINE)):
            for kind in ("metric", "obs"):
                items.append(dict(L=L, first_index=first, kind=kind, vals="fine", pmax=2, fit=(L == 2)))
    for first in (0.0, 1.0, 1.04, 2.0):
        for kind in ("metric", "obs"):
            items.append(dict(layer="reuse", first=first, kind=kind))
            items.append(dict(layer="reuse", first=first, kind=kind, clear=False))
    items.append(dict(layer="constructor"))
    for cs in tlc_sets(tier):
        items.append(dict(layer="tlc", **cs))
    return items


TLC_INVARIANTS = ["TypeOK", "StopsOnlyAtCheckedEpochs", "NeverBeforeEnoughEvaluations", "NeverComparesWithItself", "RuleMetWhenStopped"]


def tlc_sets(tier):
    base = [dict(Vals=[0, 1, 3], MaxEpoch=4, PE=1, PS=1, PAT=1, TOL=2), dict(Vals=[0, 1, 3], MaxEpoch=6, PE=2, PS=3, PAT=1, TOL=2),
            dict(Vals=[0, 2, 5], MaxEpoch=5, PE=1, PS=2, PAT=2, TOL=3), dict(Vals=[0, 1, 3], MaxEpoch=6, PE=3, PS=2, PAT=1, TOL=1)]
    if tier == "thorough":
        base += [dict(Vals=[0, 1, 2, 4], MaxEpoch=5, PE=1, PS=1, PAT=3, TOL=2), dict(Vals=[0, 1, 3], MaxEpoch=8, PE=2, PS=1, PAT=2, TOL=2),
                 dict(Vals=[0, 3, 4], MaxEpoch=6, PE=1, PS=3, PAT=1, TOL=4), dict(Vals=[0, 5], MaxEpoch=7, PE=1, PS=1, PAT=5, TOL=1)]
    return base


def run_tlc_item(acc, item):
    """E4: TLC enumerates every value sequence of the TLA+ model of the rule; every complete behaviour is
    replayed on the real callbacks (model -> code) and every run of the real callbacks over the same
    alphabet must be a model behaviour (code -> model)"""
    from ..engine import tlc as TLC
    import itertools as it
    cs = {k: item[k] for k in ("Vals", "MaxEpoch", "PE", "PS", "PAT", "TOL")}
    consts = dict(cs, Vals="{" + ", ".join(str(v) for v in cs["Vals"]) + "}")
    res = TLC.run_tlc("EarlyStop", consts, TLC_INVARIANTS)
    term = [st_ for st_ in res["states"] if st_["stopped"] or st_["ep"] == cs["MaxEpoch"]]
    if not term:
        raise EngineError("TLC dump has no terminal states")
    model = {(tuple(st_["evals"]), st_["stopAt"] if st_["stopped"] else None) for st_ in term}
    acc.count("tlc_distinct_states", res["distinct"])
    acc.count("tlc_complete_behaviours", len(model))
    acc.states += res["distinct"]
    acc.transitions += res["generated"]
    need = cs["MaxEpoch"] // cs["PE"]
    flagged = set()

    def impl(seq, kind, through_fit):
        sds = [1.0] * len(seq)
        got, last, neps = run_impl([float(x) for x in seq], sds, cs["PE"], cs["PS"], cs["PAT"], "absolute", float(cs["TOL"]), cs["MaxEpoch"], kind, through_fit)
        consumed = (got if got is not None else cs["MaxEpoch"]) // cs["PE"]
        return (tuple(seq[:consumed]), got), last

    # model -> code
    for evals, stop in sorted(model, key=lambda m: (len(m[0]), m[0])):
        seq = list(evals) + [cs["Vals"][0]] * (need - len(evals))
        for kind, tf in (("metric", False), ("obs", False), ("metric", True)):
            acc.ev(1, nontrivial=stop is not None)
            acc.traces += 1
            (obs, last) = impl(seq, kind, tf)
            if obs != (tuple(evals), stop) or last != stop:
                sig = "earlystop:callbacks-diverge-from-tlc-behaviour"
                if sig not in flagged:
                    flagged.add(sig)
                    acc.viol(sig, dict(layer="tlc", constants=cs, evals=list(evals), kind=kind, through_fit=tf), observed=dict(consumed=list(obs[0]), stopped_at=obs[1], last_epoch=last),
                             expected=dict(consumed=list(evals), stopped_at=stop))
    acc.count("tlc_behaviours_replayed", len(model))
    # code -> model
    seen = set()
    for seq in it.product(cs["Vals"], repeat=need):
        obs, last = impl(list(seq), "metric", False)
        seen.add(obs)
        acc.ev(1)
        if obs not in model and "earlystop:implementation-run-not-in-tlc-model" not in flagged:
            flagged.add("earlystop:implementation-run-not-in-tlc-model")
            acc.viol("earlystop:implementation-run-not-in-tlc-model", dict(layer="tlc", constants=cs, evals=list(seq), kind="metric", through_fit=False), observed=dict(consumed=list(obs[0]), stopped_at=obs[1]))
    if seen != model and not flagged:
        acc.viol("earlystop:trace-sets-differ", dict(layer="tlc", constants=cs), observed=len(seen), expected=len(model))
    acc.outcome(sha([cs, len(model)]))
    acc.sample(dict(layer="tlc", constants=cs, distinct_states=res["distinct"], complete_behaviours=len(model), example=[list(sorted(model, key=lambda m: -len(m[0]))[0][0]), sorted(model, key=lambda m: -len(m[0]))[0][1]]), cap=1)


def ref_stop_epoch(means, variances, P_eval, P_stop, patience, crit, tol, epochs):
    E = []
    for e in range(1, epochs + 1):
        if e % P_eval == 0:
            E.append((means[len(E)], variances[len(E)]))
        if e % P_stop == 0 and len(E) >= patience + 1:
            (m0, v0), (m1, _) = E[-1 - patience], E[-1]
            d = m0 - m1
            if crit == "absolute":
                dev = abs(d)
            elif crit == "relative":
                if m0 == 0:
                    if d == 0:
                        return e, "unspecified"
                    dev = INF
                else:
                    dev = abs(d / m0)
            else:
                dev = abs(d) / math.sqrt(v0)
            if dev < tol:
                return e, None
    return None, None


def scripted_observable(means, sds, name="Q"):
    O = lib().observables

    class Scripted(O.ObservableBase):
        def __init__(self):
            self.name = name
            self.symbol = name
            self.calls = 0

        def apply(self, nn, samples):
            m, sd = means[self.calls], sds[self.calls]
            self.calls += 1
            return torch.tensor([m - sd, m + sd], dtype=torch.double)

    return Scripted()


_STATE = {}


def state():
    if "st" not in _STATE:
        _STATE["st"] = lib().PositiveWaveFunction(1, 1, gpu=False)
    return _STATE["st"]


def run_impl(seq, sds, P_eval, P_stop, patience, crit, tol, epochs, kind, through_fit, stopper="EarlyStopping"):
    CB = lib().callbacks
    st = state()
    st.stop_training = False
    if kind == "metric":
        calls = []

        def metric(s, **kw):
            calls.append(1)
            return seq[len(calls) - 1]

        ev = CB.MetricEvaluator(P_eval, {"Q": metric})
    else:
        # a second tracked observable R with a very different spread (must never influence decisions about Q)
        other = scripted_observable([7.0 - 0.5 * i for i in range(len(seq))], [5.0 + 3.0 * i for i in range(len(seq))], name="R")
        ev = CB.ObservableEvaluator(P_eval, [scripted_observable(seq, sds), other], num_samples=2, num_chains=2, burn_in=0, steps=0)
    if stopper == "EarlyStopping":
        es = CB.EarlyStopping(P_stop, tol, patience, ev, "Q", criterion=crit)
    else:
        import warnings
        with warnings.catch_warnings():
            warnings.simplefilter("ignore")
            if ":" in stopper:
                vn = stopper.split(":", 1)[1]
                es = CB.VarianceBasedEarlyStopping(P_stop, tol, patience, ev, "Q", variance_name=None if vn == "None" else vn)
            else:
                es = CB.VarianceBasedEarlyStopping(P_stop, tol, patience, ev, "Q")
    eps = []
    try:
        if through_fit:
            rec = CB.LambdaCallback(on_epoch_end=lambda s, e: eps.append(e))
            extra = dict(scheduler=torch.optim.lr_scheduler.StepLR, scheduler_args=dict(step_size=1, gamma=0.5)) if through_fit == "sched" else {}
            cbs_ = [ev, es, rec]
            if through_fit == "two-stoppers":
                # a second stopper on the same evaluator that is eligible at the same epochs but can never be satisfied
                # (tolerance 0): it must not take back the request the first one made
                cbs_ = [ev, es, CB.EarlyStopping(P_stop, 0.0, patience, ev, "Q", criterion="absolute"), rec]
            st.fit(torch.tensor([[0.0], [1.0]], dtype=torch.double), epochs=epochs, pos_batch_size=2, lr=0.0, callbacks=cbs_, **extra)
        else:
            for e in range(1, epochs + 1):
                ev.on_epoch_end(st, e)
                es.on_epoch_end(st, e)
                eps.append(e)
                if st.stop_training:
                    break
    except ZeroDivisionError:
        st.stop_training = False
        return "zde", None, len(eps)
    stopped = st.stop_training
    st.stop_training = False
    return (eps[-1] if stopped else None), es.last_epoch, len(eps)


def stopper_ok(crit):
    return True


def check(acc, seq, patience, Pe, Ps, crit, tol, kind, through_fit, flagged, stopper="EarlyStopping"):
    L = len(seq)
    epochs = L * Pe
    sds = [0.5 + 0.25 * i for i in range(L)]
    want, flag_ = ref_stop_epoch(seq, [2 * s * s for s in sds], Pe, Ps, patience, crit, tol, epochs)
    case = dict(seq=[("nan" if x != x else x) for x in seq], patience=patience, P_eval=Pe, P_stop=Ps, criterion=crit, tolerance=("inf" if tol == INF else tol), kind=kind,
                through_fit=through_fit, stopper=stopper)
    acc.ev(1, nontrivial=(epochs // Pe) >= patience + 1)
    try:
        got, last, neps = call(run_impl, list(seq), sds, Pe, Ps, patience, crit, tol, epochs, kind, through_fit, stopper)
    except LibRaised as e:
        sig = f"earlystop:raised:{e.kind}:{crit}"
        if sig not in flagged:
            flagged.add(sig)
            acc.viol(sig, case, observed=e.tb)
        else:
            acc.n_violations += 1
        return
    acc.transitions += neps
    if flag_ == "unspecified":
        acc.count("unspecified_zero_over_zero")
        return
    if got == "zde":
        # tolerated only where the rule's deviation is infinite because the reference value is exactly 0
        refs_zero = crit == "relative" and any(x == 0 for x in seq)
        if not refs_zero:
            sig = f"earlystop:raised:ZeroDivisionError:{crit}"
            if sig not in flagged:
                flagged.add(sig)
                acc.viol(sig, case)
        acc.count("tolerated_zero_division")
        return
    if got != want or last != want:
        if want is None or (got is not None and got < want):
            kindsig = "stopped-before-the-rule-is-met"
        elif got is None or got > want:
            kindsig = "did-not-stop-when-the-rule-is-met"
        else:
            kindsig = "last_epoch-differs-from-stop-epoch"
        sig = f"earlystop:{kindsig}:{stopper.replace(':', '-variance_name-')}"
        if sig not in flagged:
            flagged.add(sig)
            acc.viol(sig, case, observed=dict(stopped_at=got, last_epoch=last), expected=dict(stop_epoch=want))
        else:
            acc.n_violations += 1
        return
    acc.traces += 1
    acc.outcome(sha([want, patience, Pe, Ps, crit]))


def ref_continue(prev, new, patience, crit, tol):
    """reference decision for a run that CONTINUES an evaluator's history: prev / new are (mean, variance) pairs,
    one evaluation and one check per epoch, epochs of the new run numbered from 1"""
    E = list(prev)
    for e, pair in enumerate(new, start=1):
        E.append(pair)
        if len(E) >= patience + 1:
            (m0, v0), (m1, _) = E[-1 - patience], E[-1]
            d = m0 - m1
            if crit == "absolute":
                dev = abs(d)
            elif crit == "relative":
                if m0 == 0:
                    if d == 0:
                        return e, "unspecified"
                    dev = INF
                else:
                    dev = abs(d / m0)
            else:
                dev = abs(d) / math.sqrt(v0)
            if dev < tol:
                return e, None
    return None, None


def run_reuse(acc, first, kind, clear=True):
    """non-initial state: ONE evaluator and ONE stopper serve two consecutive runs (stop flag reset in between).
    clear=True: clear_history() in between - the second run is decided on its own values only.
    clear=False: the history simply continues (epoch numbers restart at 1, as with the default starting_epoch) -
    the number of evaluations that exist and the look-back both count the evaluations of the first run."""
    CB = lib().callbacks
    Vr = [0.0, 1.0, 1.04, 2.0]
    flagged = set()
    for la in (2, 3):
        for restA in itertools.product(Vr, repeat=la - 1):
            A = (first,) + restA
            for lb in (2, 3):
                for B in itertools.product(Vr, repeat=lb):
                    for patience in (1, 2):
                        for crit in ("absolute", "relative") + (("variance",) if kind == "obs" else ()):
                            for tol in (0.05, 1.5):
                                acc.ev(1, nontrivial=True)
                                st = state()
                                st.stop_training = False
                                cur = dict(seq=list(A), i=0)
                                sds = [0.5 + 0.25 * i for i in range(4)]
                                if kind == "metric":
                                    def metric(s_, **kw):
                                        cur["i"] += 1
                                        return cur["seq"][cur["i"] - 1]
                                    ev = CB.MetricEvaluator(1, {"Q": metric})
                                else:
                                    O = lib().observables

                                    class Sc(O.ObservableBase):
                                        def __init__(self):
                                            self.name = "Q"
                                            self.symbol = "Q"

                                        def apply(self, nn, samples):
                                            cur["i"] += 1
                                            m, sd = cur["seq"][cur["i"] - 1], sds[cur["i"] - 1]
                                            return torch.tensor([m - sd, m + sd], dtype=torch.double)
                                    ev = CB.ObservableEvaluator(1, [Sc()], num_samples=2, num_chains=2, burn_in=0, steps=0)
                                es = CB.EarlyStopping(1, tol, patience, ev, "Q", criterion=crit)
                                got = []
                                try:
                                    for seq in (A, B):
                                        cur["seq"], cur["i"] = list(seq), 0
                                        stop_at = None
                                        for e in range(1, len(seq) + 1):
                                            ev.on_epoch_end(st, e)
                                            es.on_epoch_end(st, e)
                                            acc.transitions += 1
                                            if st.stop_training:
                                                stop_at = e
                                                break
                                        got.append(stop_at)
                                        st.stop_training = False
                                        if clear:
                                            ev.clear_history()
                                except ZeroDivisionError:
                                    st.stop_training = False
                                    acc.count("tolerated_zero_division")
                                    continue
                                want = []
                                unspecified = False
                                for seq in (A, B):
                                    w, fl = ref_stop_epoch(list(seq), [2 * x * x for x in sds], 1, 1, patience, crit, tol, len(seq))
                                    unspecified = unspecified or fl == "unspecified"
                                    want.append(w)
                                if not clear:
                                    used = A[:want[0]] if want[0] else A
                                    w, fl = ref_continue([(m_, 2 * sds[i_] ** 2) for i_, m_ in enumerate(used)], [(m_, 2 * sds[i_] ** 2) for i_, m_ in enumerate(B)], patience, crit, tol)
                                    unspecified = unspecified or fl == "unspecified"
                                    want[1] = w
                                if unspecified:
                                    continue
                                if got != want:
                                    sig = ("earlystop:second-run-after-clear_history-decided-wrongly" if clear else "earlystop:second-run-continuing-the-history-decided-wrongly") if got[0] == want[0] else "earlystop:first-run-decided-wrongly"
                                    if sig not in flagged:
                                        flagged.add(sig)
                                        acc.viol(sig, dict(layer="reuse", A=list(A), B=list(B), patience=patience, criterion=crit, tolerance=tol, kind=kind, clear=clear), observed=got, expected=want)
                                    else:
                                        acc.n_violations += 1
                                else:
                                    acc.traces += 1
                                acc.outcome(sha([want, patience, crit]))
    acc.states = acc.evaluations
    acc.sample(dict(layer="reuse", A=[first, 1.0], B=[1.0, 1.04], patience=1, criterion="absolute", tolerance=0.05, kind=kind), cap=1)


def run_constructor(acc):
    CB = lib().callbacks
    O = lib().observables
    me = CB.MetricEvaluator(1, {"Q": lambda s, **kw: 1.0})
    oe = CB.ObservableEvaluator(1, [O.SigmaZ()], num_samples=2, num_chains=2, burn_in=0, steps=0)
    acc.ev(1)
    for crit in ("variance", " Variance ", "VARIANCE"):
        try:
            CB.EarlyStopping(1, 0.1, 1, me, "Q", criterion=crit)
            acc.viol("earlystop:variance-criterion-accepted-for-plain-metrics", dict(criterion=crit), expected="TypeError")
        except TypeError:
            pass
    for crit in ("foo", "rel", ""):
        for ev in (me, oe):
            acc.ev(1)
            try:
                CB.EarlyStopping(1, 0.1, 1, ev, "Q", criterion=crit)
                acc.viol("earlystop:unknown-criterion-accepted", dict(criterion=crit), expected="ValueError")
            except ValueError:
                pass
    acc.ev(1)
    try:
        CB.EarlyStopping(1, 0.1, 1, object(), "Q")
        acc.viol("earlystop:non-evaluator-accepted", {}, expected="TypeError")
    except TypeError:
        pass
    import warnings
    with warnings.catch_warnings():
        warnings.simplefilter("ignore")
        try:
            CB.VarianceBasedEarlyStopping(1, 0.1, 1, me, "Q")
            acc.viol("earlystop:variance-criterion-accepted-for-plain-metrics", dict(via="VarianceBasedEarlyStopping"), expected="TypeError")
        except TypeError:
            pass
    acc.outcome("constructor")
    acc.sample(dict(layer="constructor", cases=["variance+MetricEvaluator", "unknown criterion", "non-evaluator"]), cap=1)


def run_item(item):
    acc = Acc()
    if item.get("layer") == "constructor":
        run_constructor(acc)
        acc.states = acc.evaluations
        return acc
    if item.get("layer") == "tlc":
        with contextlib.redirect_stdout(io.StringIO()):
            run_tlc_item(acc, item)
        return acc
    if item.get("layer") == "reuse":
        run_reuse(acc, item["first"], item["kind"], clear=item.get("clear", True))
        return acc
    L, kind, vals = item["L"], item["kind"], item["vals"]
    flagged = set()
    tols = TOLS
    if vals == "nan":
        vals = V + [float("nan")]
        item = dict(item, first=vals[item["first_index"]])
    elif vals == "fine":
        vals, tols = FINE, FINE_TOLS
        item = dict(item, first=vals[item["first_index"]])
    fixed = [item["first"]] + ([item["second"]] if "second" in item else [])
    with contextlib.redirect_stdout(io.StringIO()):
        for rest in itertools.product(vals, repeat=L - len(fixed)):
            seq = tuple(fixed) + rest
            for patience in range(1, item["pmax"] + 1):
                for (Pe, Ps) in (PERIODS if item.get("pmax", 3) <= 3 and "second" not in item else PERIODS):
                    for crit in ("relative", "absolute", "variance"):
                        if crit == "variance" and kind == "metric":
                            continue
                        for tol in tols:
                            check(acc, seq, patience, Pe, Ps, crit, tol, kind, False, flagged)
                            if item["fit"] and (Pe, Ps) in ((1, 1), (2, 3), (1, 2)):
                                check(acc, seq, patience, Pe, Ps, crit, tol, kind, True, flagged)
                                if (Pe, Ps) == (1, 1):
                                    # the same run with a learning-rate scheduler attached: a stop raised at an epoch end still ends the run
                                    check(acc, seq, patience, Pe, Ps, crit, tol, kind, "sched", flagged)
                                    if stopper_ok(crit):
                                        check(acc, seq, patience, Pe, Ps, crit, tol, kind, "two-stoppers", flagged)
                            if crit == "variance" and Pe == 1:
                                check(acc, seq, patience, Pe, Ps, crit, tol, kind, False, flagged, stopper="VarianceBasedEarlyStopping")
                                if Ps == 1:
                                    for vn in ("None", "Q", "R", "Q_variance"):
                                        check(acc, seq, patience, Pe, Ps, crit, tol, kind, False, flagged, stopper="VarianceBasedEarlyStopping:" + vn)
    acc.states = acc.evaluations
    acc.sample(dict(seq=[("nan" if x != x else x) for x in (list(fixed) + [vals[0]] * (L - len(fixed)))], patience=1, P_eval=1, P_stop=1, criterion="absolute", tolerance=0.05, kind=kind), cap=1)
    return acc


def replay(case):
    acc = Acc()
    if case.get("layer") == "reuse":
        run_reuse(acc, case["A"][0], case["kind"], clear=case.get("clear", True))
        return acc
    if case.get("layer") == "tlc":
        with contextlib.redirect_stdout(io.StringIO()):
            run_tlc_item(acc, dict(layer="tlc", **case["constants"]))
        return acc
    if "seq" not in case:
        run_constructor(acc)
        return acc
    tol = INF if case["tolerance"] == "inf" else case["tolerance"]
    check(acc, tuple(float("nan") if x == "nan" else x for x in case["seq"]), case["patience"], case["P_eval"], case["P_stop"], case["criterion"], tol, case["kind"], case["through_fit"], set(),
          case.get("stopper", "EarlyStopping"))
    return acc
