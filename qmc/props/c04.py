"""C04 - measurement-basis rotations equal the tensor-product unitary they denote.

E3 lattice: every basis string x (explicit basis vectors / Hermitian basis / generic / model-derived
states) x outcome batches x the three fast paths, against the dense Kronecker product.
"""
import itertools
import numpy as np
import torch

from ..common import lib, call, LibRaised, build_state, close, maxerr, sha, tbits, pattern, param_assignments
from ..engine.acc import Acc
from ..ref import models as R

ID = "C04"
ENGINE_NAME = "E3 input lattice"
RULE = ("one case = (input group, basis string, dictionary); each case runs rotate_psi / rotate_rho / rotate_psi_inner_prod / "
        "rotate_rho_probs on every input of its group (all computational basis vectors e_k and i*e_k, the Hermitian matrix "
        "basis, generic complex vectors / PSD / Hermitian matrices, model-derived states) and every outcome batch (full space, "
        "singles, ordered pairs, repeats, reversed), compared with the dense Kronecker unitary; non-trivial = basis string "
        "contains a letter other than Z; distinct = distinct (group, n, basis, dictionary)")
ASSUMPTIONS = ["explicit rho inputs are Hermitian (rotate_rho is real-linear on Hermitian matrices; non-Hermitian inputs are "
               "outside the property: a density matrix is Hermitian)", "float64 inputs"]
TOL = 1e-9
NONREAL = set("YSG")


def c2t(a):
    a = np.asarray(a, dtype=complex)
    return torch.stack([torch.tensor(a.real.copy(), dtype=torch.double), torch.tensor(a.imag.copy(), dtype=torch.double)])


def custom_dict_t():
    L = lib()
    return L.unitaries.create_dict(**{k: c2t(v) for k, v in R.CUSTOM_U.items()})


ALLU = dict(R.DEFAULT_U, **R.CUSTOM_U)


def strings(alpha, n):
    return ["".join(s) for s in itertools.product(alpha, repeat=n)]


def gen_vec(D, j):
    re = np.array(pattern(D, j), dtype=float)
    im = np.array(pattern(D, j + 1, 1), dtype=float)
    return re + 1j * im


def gen_herm(D, j):
    a = np.array(pattern(D * D, j), dtype=float).reshape(D, D) + 1j * np.array(pattern(D * D, j + 2, 1), dtype=float).reshape(D, D)
    return a + a.conj().T


def gen_psd(D, j):
    a = np.array(pattern(D * D, j + 1), dtype=float).reshape(D, D) + 1j * np.array(pattern(D * D, j + 3, 1), dtype=float).reshape(D, D)
    return a @ a.conj().T


def herm_basis(D):
    out = []
    for j in range(D):
        m = np.zeros((D, D), dtype=complex)
        m[j, j] = 1
        out.append((f"E{j}{j}", m))
    for j in range(D):
        for k in range(j + 1, D):
            m = np.zeros((D, D), dtype=complex)
            m[j, k] = m[k, j] = 1
            out.append((f"S{j}{k}", m))
            m = np.zeros((D, D), dtype=complex)
            m[j, k] = 1j
            m[k, j] = -1j
            out.append((f"A{j}{k}", m))
    return out


def batches(n):
    D = 2 ** n
    out = [("full", list(range(D))), ("reversed", list(range(D - 1, -1, -1))), ("repeats", [0, D - 1, 0, D - 1, D // 2])]
    out += [(f"single{k}", [k]) for k in range(D)]
    if n <= 2:
        out += [(f"pair{a}{b}", [a, b]) for a in range(D) for b in range(D)]
    return out


def bound(tier):
    q = tier == "quick"
    return dict(default_strings="all 3^n, n<=4 on explicit+model inputs" if q else "all 3^n, n<=4 on explicit+model inputs, n=5 on model-derived",
                custom_strings="all over {X,Y,Z,H,S,G}, n<=%d" % (2 if q else 3),
                explicit_psi="every e_k, i*e_k, 3 generic complex vectors",
                explicit_rho="Hermitian matrix basis (n<=3), generic PSD, generic Hermitian with non-real off-diagonals",
                batches="full space, reversed, repeats, every single state, every ordered pair (n<=2)",
                paths=["rotate_psi", "rotate_rho", "rotate_psi_inner_prod(+extras)", "rotate_rho_probs(+extras)"])


def plan(tier, seed):
    items = []
    nmax = 4
    for n in range(1, nmax + 1):
        for b in strings("XYZ", n):
            items.append(dict(group="explicit", n=n, basis=b, dict="default"))
            items.append(dict(group="model", n=n, basis=b, dict="default"))
    if tier == "thorough":
        for b in strings("XYZ", nmax + 1):
            items.append(dict(group="model", n=nmax + 1, basis=b, dict="default"))
    cmax = 2 if tier == "quick" else 3
    for n in range(1, cmax + 1):
        for b in strings("XYZHSG", n):
            if set(b) <= set("XYZ"):
                continue
            items.append(dict(group="explicit", n=n, basis=b, dict="custom-arg"))
            items.append(dict(group="explicit", n=n, basis=b, dict="custom-own"))
            items.append(dict(group="model", n=n, basis=b, dict="custom-own"))
    for n in (1, 2, 3):
        for b in strings("XYZ", n):
            if set(b) != {"Z"}:
                items.append(dict(group="explicit", n=n, basis=b, dict="override-arg"))
                items.append(dict(group="model", n=n, basis=b, dict="override-arg"))
    for n in (1, 2, 3, 4):
        items.append(dict(group="large-batch", n=n))
    items.append(dict(group="dictionary"))
    # systems wider than a byte of index bits (n = 9, 10): explicit states through the per-outcome paths
    for n in (9, 10):
        items.append(dict(group="wide", n=n))
    for first in range(len(HIST_OPS)):
        items.append(dict(group="dict-history", first=first, depth=4 if tier == "quick" else 5))
    # chunk: many tiny cases per worker call
    chunks = [it for it in items if it.get("group") == "dict-history"]
    small = [it for it in items if it.get("group") != "dict-history"]
    step = 6
    for i in range(0, len(small), step):
        chunks.append(dict(cases=small[i:i + step]))
    return chunks


def _states(n, dmode):
    L = lib()
    ud = custom_dict_t() if dmode == "custom-own" else None
    cst = build_state("complex", [n, n], unitary_dict=ud)
    mst = build_state("mixed", [n, 1, 1], unitary_dict=ud)
    return cst, mst


def check_wide(acc, case):
    """explicit psi / rho of a 9- or 10-qubit system through rotate_psi_inner_prod / rotate_rho_probs: outcome rows
    with ones among the FIRST sites (index bits above the eighth) and rotated first / last / middle sites"""
    L = lib()
    U_ = L.unitaries
    n = case["n"]
    D = 2 ** n
    cst, mst = _states(n, "default")
    psi = gen_vec(D, 0)
    psi = psi / np.linalg.norm(psi)
    rows = sorted({0, 1, D - 1, D // 2, D // 2 + 5, 300, D - 256, 257, 511})
    space = cst.generate_hilbert_space()[rows]
    rho_t = c2t(np.outer(psi, psi.conj()))
    for basis in ("X" + "Z" * (n - 2) + "Y", "Z" * (n - 1) + "X", "Y" + "Z" * (n - 1), "Z" * 4 + "X" + "Z" * (n - 5), "Z" * n):
        acc.ev(1, nontrivial=set(basis) != {"Z"})
        want = (R.basis_unitary(basis) @ psi)[rows]
        try:
            g1 = L.cplx.numpy(call(U_.rotate_psi_inner_prod, cst, basis, space, psi=c2t(psi)))
            g2 = call(U_.rotate_rho_probs, mst, basis, space, rho=rho_t).numpy()
        except LibRaised as e:
            acc.viol(f"rotate:raised:{e.kind}:wide", dict(case, basis=basis), observed=e.tb)
            return
        acc.count("comparisons", 2)
        if not close(g1, want, TOL, at=TOL) or not close(g2, np.abs(want) ** 2, TOL, at=TOL):
            acc.viol("rotate_psi_inner_prod:explicit:wide-system", dict(case, basis=basis), observed=g1, expected=want)
            return
    acc.outcome(f"wide{n}")


def check_case(acc, case):
    L = lib()
    U_ = L.unitaries
    if case["group"] == "dictionary":
        return check_dictionary(acc, case)
    if case["group"] == "large-batch":
        return check_large_batch(acc, case)
    if case["group"] == "wide":
        return check_wide(acc, case)
    n, basis, dmode = case["n"], case["basis"], case["dict"]
    D = 2 ** n
    space = tbits(n)
    U = R.basis_unitary(basis, ALLU)
    qual = "nonreal-basis" if (set(basis) & NONREAL) else "real-basis"
    kw = dict(unitaries=custom_dict_t()) if dmode == "custom-arg" else {}
    if dmode == "override-arg":
        # the dictionary passed as an argument redefines default letters: it wins over the state's own
        ov = dict(R.DEFAULT_U, X=R.CUSTOM_U["G"], Y=R.CUSTOM_U["S"])
        kw = dict(unitaries=L.unitaries.create_dict(X=c2t(ov["X"]), Y=c2t(ov["Y"])))
        U = R.basis_unitary(basis, ov)
        qual = "nonreal-basis" if set(basis) & set("XY") else "real-basis"
    acc.ev(1, nontrivial=set(basis) != {"Z"})

    def bad(func, src, obs, exp, sub):
        acc.viol(f"{func}:{src}:{qual}", dict(case), observed=obs, expected=exp, detail=dict(input=sub), tol=TOL)

    def cmp(func, src, obs, exp, sub, scale=1.0):
        acc.count("comparisons")
        e = maxerr(np.asarray(obs) / scale, np.asarray(exp) / scale)
        acc.err(e if np.isfinite(e) else 0)
        if not close(np.asarray(obs) / scale, np.asarray(exp) / scale, TOL):
            bad(func, src, obs, exp, sub)
            return False
        return True

    try:
        if case["group"] == "explicit":
            cst, mst = _states(n, dmode)
            psis = [(f"e{k}", np.eye(D, dtype=complex)[k]) for k in range(D)] + [(f"i*e{k}", 1j * np.eye(D, dtype=complex)[k]) for k in range(D)]
            psis += [(f"generic{j}", gen_vec(D, j)) for j in range(3)]
            bl = batches(n)
            for name, psi in psis:
                exp = U @ psi
                o = L.cplx.numpy(call(U_.rotate_psi, cst, basis, space, psi=c2t(psi), **kw))
                if not cmp("rotate_psi", "explicit", o, exp, name):
                    break
                if name == "generic0":
                    bigp = torch.zeros(2, 2 * D, dtype=torch.double)
                    bigp[:, ::2] = c2t(psi)
                    tt = bigp[:, ::2]
                    keep = tt.clone()
                    cmp("rotate_psi", "explicit-layout:strided-view", L.cplx.numpy(call(U_.rotate_psi, cst, basis, space, psi=tt, **kw)), exp, name)
                    cmp("rotate_psi_inner_prod", "explicit-layout:strided-view", L.cplx.numpy(call(U_.rotate_psi_inner_prod, cst, basis, space, psi=tt, **kw)), exp, name)
                    if not torch.equal(tt, keep):
                        bad("rotate_psi", "explicit-input-modified:strided-view", tt.numpy(), keep.numpy(), name)
                use = bl if name.startswith("generic") else bl[:1]
                stop = False
                for bn, rows in use:
                    st_rows = space[rows]
                    o = L.cplx.numpy(call(U_.rotate_psi_inner_prod, cst, basis, st_rows, psi=c2t(psi), **kw))
                    if not cmp("rotate_psi_inner_prod", "explicit", o, exp[rows], f"{name}/{bn}"):
                        stop = True
                        break
                if stop:
                    break
            # explicit states given in another dtype (integer basis vectors, float32): may be refused, but
            # must never give different numbers
            for dname, dt in (("int64", torch.int64), ("float32", torch.float32)):
                for k in (0, D - 1):
                    e = np.eye(D, dtype=complex)[k]
                    exp = U @ e
                    try:
                        o = L.cplx.numpy(call(U_.rotate_psi, cst, basis, space, psi=c2t(e).to(dt), **kw))
                        o2 = L.cplx.numpy(call(U_.rotate_rho, mst, basis, space, rho=c2t(np.outer(e, e.conj())).to(dt), **kw))
                    except Exception:  # noqa: BLE001
                        acc.count("non-double-explicit-state-refused")
                        continue
                    tol_ = TOL if dt is torch.int64 else 1e-6
                    if not close(o, exp, tol_, at=tol_):
                        bad("rotate_psi", "explicit-" + dname, o, exp, f"e{k}")
                    if not close(o2, np.outer(exp, exp.conj()), tol_, at=tol_):
                        bad("rotate_rho", "explicit-" + dname, o2, np.outer(exp, exp.conj()), f"E{k}{k}")
            rhos = [(f"psd{j}", gen_psd(D, j)) for j in range(2)] + [("herm0", gen_herm(D, 0))]
            if n <= 3:
                rhos += herm_basis(D)
            for name, rho in rhos:
                exp = U @ rho @ U.conj().T
                o = L.cplx.numpy(call(U_.rotate_rho, mst, basis, space, rho=c2t(rho), **kw))
                if not cmp("rotate_rho", "explicit", o, exp, name):
                    break
                if name in ("psd0", "herm0"):
                    # the same matrix in other memory layouts (column-major as from a Fortran-ordered array or a
                    # transposed view; every second entry of a larger work array): same values, same result, and
                    # the caller's tensor is left as it was
                    t0 = c2t(rho)
                    big = torch.zeros(2, 2 * D, 2 * D, dtype=torch.double)
                    big[:, ::2, ::2] = t0
                    for lname, tt in (("column-major", t0.transpose(1, 2).contiguous().transpose(1, 2)), ("strided-view", big[:, ::2, ::2])):
                        keep = tt.clone()
                        o = L.cplx.numpy(call(U_.rotate_rho, mst, basis, space, rho=tt, **kw))
                        cmp("rotate_rho", "explicit-layout:" + lname, o, exp, name)
                        o = call(U_.rotate_rho_probs, mst, basis, space, rho=tt, **kw).numpy()
                        cmp("rotate_rho_probs", "explicit-layout:" + lname, o, np.real(np.diag(exp)), name)
                        if not torch.equal(tt, keep):
                            bad("rotate_rho", "explicit-input-modified:" + lname, tt.numpy(), keep.numpy(), name)
                use = bl if name in ("psd0", "herm0") else bl[:1]
                stop = False
                for bn, rows in use:
                    o = call(U_.rotate_rho_probs, mst, basis, space[rows], rho=c2t(rho), **kw).numpy()
                    if not cmp("rotate_rho_probs", "explicit", o, np.real(np.diag(exp))[rows], f"{name}/{bn}"):
                        stop = True
                        break
                if stop:
                    break
        else:  # model-derived
            ud = custom_dict_t() if dmode == "custom-own" else None
            for q in range(2):
                for kind, arch in (("complex", [n, n + 1]), ("positive", [n, n]), ("mixed", [n, 2, 2] if n <= 3 else [n, 1, 1])):
                    if kind == "positive" and dmode != "default":
                        continue
                    if kind == "mixed" and n >= 5:
                        continue
                    params = next(iter(param_assignments(kind, arch, npat=1, dev=0, q0=q)))[1]
                    st = build_state(kind, arch, params, unitary_dict=ud) if kind != "positive" else build_state(kind, arch, params)
                    kk = dict(kw)
                    if kind == "positive":
                        kk = dict(unitaries=L.unitaries.create_dict())
                    sub = f"{kind}{arch}/q{q}"
                    Z = float(call(st.normalization, space))
                    if kind == "mixed":
                        rho = L.cplx.numpy(call(st.rho, space, space))
                        exp = U @ rho @ U.conj().T
                        o = L.cplx.numpy(call(U_.rotate_rho, st, basis, space, **kk))
                        cmp("rotate_rho", "model", o, exp, sub, scale=Z)
                        pr = np.real(np.diag(exp))
                        for bn, rows in batches(n)[:3] + batches(n)[3:5]:
                            o = call(U_.rotate_rho_probs, st, basis, space[rows], **kk).numpy()
                            if not cmp("rotate_rho_probs", "model", o, pr[rows], f"{sub}/{bn}", scale=Z):
                                break
                        full = call(U_.rotate_rho_probs, st, basis, space, **kk).numpy()
                        a, b, c = call(U_.rotate_rho_probs, st, basis, space, include_extras=True, **kk)
                        if not (close(a.numpy(), full, 1e-12) and close(b[0].sum((0, 1)).numpy(), full, 1e-10, at=1e-12 * Z)
                                and tuple(c.shape)[-2:] == (D, n)):
                            bad("rotate_rho_probs", "model-extras", a, full, sub)
                    else:
                        psi = L.cplx.numpy(call(st.psi, space))
                        exp = U @ psi
                        o = L.cplx.numpy(call(U_.rotate_psi, st, basis, space, **kk))
                        cmp("rotate_psi", "model", o, exp, sub, scale=np.sqrt(Z))
                        for bn, rows in batches(n)[:3] + batches(n)[3:5]:
                            o = L.cplx.numpy(call(U_.rotate_psi_inner_prod, st, basis, space[rows], **kk))
                            if not cmp("rotate_psi_inner_prod", "model", o, exp[rows], f"{sub}/{bn}", scale=np.sqrt(Z)):
                                break
                        a, b, c = call(U_.rotate_psi_inner_prod, st, basis, space, include_extras=True, **kk)
                        if not (close(L.cplx.numpy(a), exp, TOL * np.sqrt(Z), at=TOL * np.sqrt(Z)) and close(L.cplx.numpy(b).sum(0), L.cplx.numpy(a), 1e-10)
                                and tuple(c.shape)[-2:] == (D, n)):
                            bad("rotate_psi_inner_prod", "model-extras", a, exp, sub)
                        full = np.abs(exp) ** 2
                    # physical state: rotated Born probabilities are non-negative and sum to Z in every basis
                    if full.min() < -1e-12 * Z or not close(full.sum() / Z, 1.0, TOL):
                        bad("rotated-probabilities", "not-a-distribution", [float(full.min()), float(full.sum())], [0.0, Z], sub)
    except LibRaised as e:
        acc.viol(f"rotate:raised:{e.kind}:{qual}", dict(case), observed=e.tb)
    acc.outcome(sha([case["group"], np.round(U, 6)]))


def check_large_batch(acc, case):
    """batches much longer than the space (rows repeat): chunked evaluation paths must return one
    value per row, in row order"""
    L = lib()
    U_ = L.unitaries
    n = case["n"]
    D = 2 ** n
    space = tbits(n)
    params_c = next(iter(param_assignments("complex", [n, 2], npat=1, dev=0, q0=1)))[1]
    params_m = next(iter(param_assignments("mixed", [n, 1, 1], npat=1, dev=0, q0=1)))[1]
    cst = build_state("complex", [n, 2], params_c)
    mst = build_state("mixed", [n, 1, 1], params_m)
    psi = L.cplx.numpy(call(cst.psi, space))
    rho = L.cplx.numpy(call(mst.rho, space, space))
    plans = [(("XY" * n)[:n], 300), (("YX" * n)[:n], 1000)]
    if n <= 2:
        plans.append((("XY" * n)[:n], 5000))
    plans.append(("Y" + "Z" * (n - 1), 70000))
    for basis, B in plans:
        acc.ev(1)
        rows = [(7 * i * i + 3 * i) % D for i in range(B)]
        U = R.basis_unitary(basis)
        st_rows = space[rows]
        try:
            o1 = L.cplx.numpy(call(U_.rotate_psi_inner_prod, cst, basis, st_rows))
            o2 = call(U_.rotate_rho_probs, mst, basis, st_rows).numpy()
            o3 = L.cplx.numpy(call(U_.rotate_psi_inner_prod, cst, basis, st_rows, psi=c2t(psi)))
            o4 = call(U_.rotate_rho_probs, mst, basis, st_rows, rho=c2t(rho)).numpy()
        except LibRaised as e:
            acc.viol(f"rotate:raised:{e.kind}:large-batch", dict(case, basis=basis, rows=B), observed=e.tb)
            continue
        e1 = (U @ psi)[rows]
        e2 = np.real(np.diag(U @ rho @ U.conj().T))[rows]
        for nm, o, e in (("rotate_psi_inner_prod:model", o1, e1), ("rotate_rho_probs:model", o2, e2), ("rotate_psi_inner_prod:explicit", o3, e1), ("rotate_rho_probs:explicit", o4, e2)):
            acc.count("comparisons")
            if not close(o, e, TOL):
                acc.viol(nm + ":large-batch", dict(case, basis=basis, rows=B), observed=list(np.shape(o)), expected=list(np.shape(e)), detail=dict(rows=B))
    acc.outcome(sha(["large", n]))


def check_dictionary(acc, case):
    L = lib()
    acc.ev(1)
    d = call(L.unitaries.create_dict)
    ok = set(d.keys()) == {"X", "Y", "Z"}
    obs = {}
    for k in "XYZ":
        if k not in d:
            ok = False
            continue
        u = L.cplx.numpy(d[k])
        obs[k] = u
        if not close(u @ u.conj().T, np.eye(2), 1e-12):
            ok = False
    if ok:
        ok = (close(obs["Z"], np.eye(2), 1e-15)
              and close(obs["X"] @ R.PX @ obs["X"].conj().T, np.diag([1.0, -1.0]), 1e-12)
              and close(obs["Y"] @ R.PY @ obs["Y"].conj().T, np.diag([1.0, -1.0]), 1e-12))
    if not ok:
        acc.viol("dictionary:default-unitaries", dict(case), observed=obs, expected=R.DEFAULT_U)
    # user-added unitaries are stored as given and do not disturb the defaults
    d2 = call(L.unitaries.create_dict, **{k: c2t(v) for k, v in R.CUSTOM_U.items()})
    for k, v in ALLU.items():
        if k not in d2 or not close(L.cplx.numpy(d2[k]), v, 1e-15):
            acc.viol("dictionary:user-added-unitary", dict(case), observed=d2.get(k), expected=v, detail=dict(letter=k))
    # overriding default letters in one call, or editing a returned dictionary, must not change what a later
    # plain create_dict() returns
    call(L.unitaries.create_dict, X=c2t(R.CUSTOM_U["G"]), Z=c2t(R.CUSTOM_U["S"]))
    dd = call(L.unitaries.create_dict)
    dd["Y"] = c2t(R.CUSTOM_U["G"])
    dd["X"].mul_(2.0)
    d4 = call(L.unitaries.create_dict)
    acc.ev(1)
    if any(not close(L.cplx.numpy(d4[k]), R.DEFAULT_U[k], 1e-15) for k in "XYZ") or set(d4) != {"X", "Y", "Z"}:
        acc.viol("dictionary:defaults-changed-by-an-earlier-call", dict(case), observed={k: d4[k] for k in d4}, expected=R.DEFAULT_U)
    # user matrices given as nested lists / numpy arrays (real-pair layout [re, im]) are converted
    for name, v in R.CUSTOM_U.items():
        pair = np.stack([v.real, v.imag])
        for form, val in (("list", pair.tolist()), ("numpy", pair), ("float32-tensor", torch.tensor(pair, dtype=torch.float32))):
            acc.ev(1)
            try:
                d3 = call(L.unitaries.create_dict, **{name: val})
            except Exception as e:  # noqa: BLE001
                acc.count("dictionary-input-form-refused")
                continue
            # lists go through torch.tensor(), i.e. torch's default (single) precision: rounding to 1e-7 is
            # what that conversion means and is not held against the library
            tol_ = 1e-15 if form == "numpy" else 1e-6
            if d3[name].dtype != torch.double or not close(L.cplx.numpy(d3[name]), v, tol_, at=tol_) or set(d3) != {"X", "Y", "Z", name}:
                acc.viol("dictionary:user-added-unitary", dict(case, form=form), observed=d3[name], expected=v, detail=dict(letter=name, form=form))
    acc.outcome("dictionary")


HIST_MATS = ["H", "S", "G"]
HIST_OPS = [("set", m) for m in HIST_MATS] + [("call", path, mode) for path in ("rotate_psi", "rotate_rho", "inner", "probs") for mode in ("own", "arg-fresh", "arg-reused")]


def run_history(acc, seq):
    """non-initial states: the meaning of a user-added letter changes between calls (dictionary mutated
    in place, or a new dictionary object passed); every call must use the CURRENT matrices"""
    L = lib()
    U_ = L.unitaries
    n = 2
    space = tbits(n)
    ud0 = L.unitaries.create_dict(A=c2t(R.CUSTOM_U["H"]))
    cst = build_state("complex", [n, 2], next(iter(param_assignments("complex", [n, 2], npat=1, dev=0, q0=1)))[1], unitary_dict=ud0)
    mst = build_state("mixed", [n, 1, 1], next(iter(param_assignments("mixed", [n, 1, 1], npat=1, dev=0, q0=1)))[1], unitary_dict=ud0)
    reused = L.unitaries.create_dict(A=c2t(R.CUSTOM_U["H"]))
    cur = "H"
    psi = L.cplx.numpy(call(cst.psi, space))
    rho = L.cplx.numpy(call(mst.rho, space, space))
    for step, op in enumerate(seq):
        if op[0] == "set":
            cur = op[1]
            for d in (cst.unitary_dict, mst.unitary_dict, reused):
                d["A"] = c2t(R.CUSTOM_U[cur])
            continue
        _, path, mode = op
        acc.count("comparisons")
        for basis in ("AZ", "XA"):
            ud = dict(R.DEFAULT_U, A=R.CUSTOM_U[cur])
            U = R.basis_unitary(basis, ud)
            kw = {}
            if mode == "arg-fresh":
                kw = dict(unitaries=L.unitaries.create_dict(A=c2t(R.CUSTOM_U[cur])))
            elif mode == "arg-reused":
                kw = dict(unitaries=reused)
            if path == "rotate_psi":
                got, exp = L.cplx.numpy(call(U_.rotate_psi, cst, basis, space, **kw)), U @ psi
            elif path == "rotate_rho":
                got, exp = L.cplx.numpy(call(U_.rotate_rho, mst, basis, space, **kw)), U @ rho @ U.conj().T
            elif path == "inner":
                got, exp = L.cplx.numpy(call(U_.rotate_psi_inner_prod, cst, basis, space, **kw)), U @ psi
            else:
                got, exp = call(U_.rotate_rho_probs, mst, basis, space, **kw).numpy(), np.real(np.diag(U @ rho @ U.conj().T))
            if not close(got, exp, TOL):
                acc.viol(f"{path if path.startswith('rotate') else ('rotate_psi_inner_prod' if path == 'inner' else 'rotate_rho_probs')}:stale-dictionary:{mode}",
                         dict(group="dict-history", sequence=[list(o) for o in seq[:step + 1]]), observed=got, expected=exp, detail=dict(basis=basis, current_A=cur))
                return False
    return True


def run_history_item(acc, item):
    import itertools as it
    first = HIST_OPS[item["first"]]
    for ln in range(0, item["depth"]):
        for rest in it.product(HIST_OPS, repeat=ln):
            seq = (first,) + rest
            if seq[-1][0] != "call":
                continue
            acc.ev(1, nontrivial=any(o[0] == "set" for o in seq))
            ok = run_history(acc, seq)
            acc.outcome(sha([list(o) for o in seq][-2:]))
            if not ok:
                return
    acc.sample(dict(group="dict-history", first=list(first), depth=item["depth"]), cap=1)


def run_item(item):
    acc = Acc()
    if item.get("group") == "dict-history":
        run_history_item(acc, item)
        acc.states = acc.evaluations
        acc.transitions = acc.counters.get("comparisons", 0)
        acc.traces = acc.evaluations
        return acc
    for case in item["cases"]:
        check_case(acc, case)
    acc.sample(item["cases"][0], cap=1)
    acc.states = acc.evaluations
    acc.evaluations = max(acc.evaluations, acc.counters.get("comparisons", 0))
    acc.transitions = acc.counters.get("comparisons", 0)
    acc.traces = acc.counters.get("comparisons", 0)
    return acc


def replay(case):
    acc = Acc()
    if case.get("group") == "dict-history":
        acc.ev(1)
        run_history(acc, [tuple(o) for o in case["sequence"]])
        return acc
    check_case(acc, case)
    return acc
