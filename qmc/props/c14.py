"""C14 - seeded runs are reproducible and evaluation never alters the model.

E2-style exhaustive enumeration of operation histories (every sequence up to the depth bound over the
public operations, per state type).  Each history runs three times from set_random_seed: twice with
the same seed - the second time with numpy's and `random`'s global state re-seeded differently and
perturbed between every two operations - and once with another seed.
"""
import hashlib
import itertools
import os
import random
import shutil
import tempfile
import numpy as np
import torch

from ..common import lib, call, LibRaised, sha, HOME, training_statistics, EngineError
from ..engine.acc import Acc
from ..engine.env import numpy_random_consumed

ID = "C14"
ENGINE_NAME = "E2 history enumeration (no merging: every history is its own state)"
SELFCHECK = False  # this property IS run-to-run determinism of the library: the generic harness self-check would mask it
RULE = ("one evaluation = one operation history executed three times (seed s; seed s with numpy/random perturbed; seed s'); "
        "non-trivial = history contains at least one randomised operation besides construction; distinct = distinct "
        "(state type, history, seed)")
ASSUMPTIONS = ["CPU generator only (no GPU in the sandbox)", "construction draws >= 4 float64 weights (>= 256 random bits), so a different seed must change every history's outcome"]
COUNTS = ("states = histories x seeds (each history is a distinct state: no merging); transitions = operations executed across the three runs; "
          "traces_validated_against_impl = histories whose three runs satisfied all comparisons")

OPS = ["reinit", "fit_saver", "fit_callbacks", "load_sample", "sample_k0", "overwrite_space", "sample", "sample_one", "sample_init", "stats", "stats_one", "sysstats", "fit", "fit_neg", "grad", "exact", "rotate", "metric", "save", "apply"]
READONLY = {"sample_k0", "overwrite_space", "sample", "sample_one", "stats_one", "sample_init", "stats", "sysstats", "grad", "exact", "rotate", "metric", "save", "apply"}
DATA = torch.tensor([[0.0, 1.0], [1.0, 1.0], [1.0, 0.0]], dtype=torch.double)
BASES = np.array([list("ZZ"), list("XY"), list("YZ")])
BASES_FIT = np.array([list("ZZ"), list("XY"), list("ZZ")])


def bound(tier):
    return dict(operations=OPS, depth_all_seeds=2, depth_seed0="3 (third operation from the 10 randomised / stateful ones)" if tier == "quick" else 4, seeds=[0, 1, 1234, "VERIF_SEED"], kinds=["positive", "complex", "mixed"],
                thorough_note="depth 4 over the 8 randomised/stateful operations" if tier != "quick" else "",
                fresh_process=dict(hash_seeds=HASHSEEDS[tier], script="fit (5 distinct bases in one batch) x2, sample, System.statistics, gradient, exact gradient"),
                repeat_on_same_inputs=["sample", "Observable.statistics", "Observable.statistics:uneven", "System.statistics", "Observable.sample", "NeighbourInteraction.statistics:periodic:c=2", "ObservableEvaluator"],
                interludes=["7 refused calls caught by the caller", "the entry's observable objects evaluated on other models"])


HASHSEEDS = {"quick": ["0", "1", "2"], "thorough": ["0", "1", "2", "3", "4", "12345"]}


def plan(tier, seed):
    items = []
    for kind in ("positive", "complex", "mixed"):
        for first in OPS:
            items.append(dict(kind=kind, first=first, tier=tier, vseed=seed))
        items.append(dict(kind=kind, layer="fresh-process", tier=tier, vseed=seed))
        items.append(dict(kind=kind, layer="repeat-on-same-inputs", tier=tier, vseed=seed))
    return items


def run_fresh_process(acc, kind, tier, seeds=(5,)):
    """The same seeded script in separate interpreters that differ only in PYTHONHASHSEED (what re-running a script
    does): bit-identical parameters, samples, statistics and gradients."""
    import json
    import subprocess
    import sys
    for s in seeds:
        outs = {}
        for hs in HASHSEEDS[tier]:
            env = dict(os.environ, PYTHONHASHSEED=hs)
            r = subprocess.run([sys.executable, "-W", "ignore", "-m", "qmc.props._c14_child", kind, str(s)], cwd=HOME, env=env, capture_output=True, text=True)
            line = [l for l in r.stdout.splitlines() if l.startswith("C14CHILD ")]
            if r.returncode != 0 or not line:
                raise EngineError("C14 child failed: " + (r.stderr or r.stdout)[-400:])
            outs[hs] = json.loads(line[-1][9:])
            acc.transitions += 1
        acc.ev(1, nontrivial=True)
        base = outs[HASHSEEDS[tier][0]]
        names = ["initial parameters", "parameters after fit (5 bases in one batch)", "parameters after second fit", "samples", "statistics", "gradient", "exact gradient"]
        diff = [(hs, names[next(i for i in range(len(base)) if o[i] != base[i])]) for hs, o in outs.items() if o != base]
        if diff:
            acc.viol("repro:same-seed-differs-between-interpreter-starts:" + diff[0][1].split(" ")[0], dict(kind=kind, layer="fresh-process", seed=s),
                     detail=dict(differs=[list(d) for d in diff], hash_seeds=HASHSEEDS[tier]))
        else:
            acc.traces += 1
        acc.outcome(sha(base))


def run_repeat(acc, kind):
    """seed; call; seed; the SAME call on the SAME caller-owned tensors: identical results, inputs untouched
    (a start state passed without overwrite=True belongs to the caller)."""
    L = lib()
    O = L.observables
    entries = [("sample", lambda st, x: st.sample(k=2, initial_state=x)),
               ("Observable.statistics", lambda st, x: O.SigmaZ().statistics(st, num_samples=6, burn_in=1, steps=1, initial_state=x)),
               ("Observable.statistics:uneven", lambda st, x: O.SigmaZ().statistics(st, num_samples=4, burn_in=1, steps=2, initial_state=x)),
               ("System.statistics", lambda st, x: O.System(O.SigmaZ(), O.SigmaX()).statistics(st, num_samples=6, burn_in=1, steps=1, initial_state=x)),
               ("Observable.sample", lambda st, x: O.SigmaX().sample(st, 2, initial_state=x)),
               ("ObservableEvaluator", None)]
    box = {}   # ONE observable object per entry, used in all three repetitions and in the interlude between them
    entries.insert(5, ("NeighbourInteraction.statistics:periodic:c=2", lambda st, x: box["ni"].statistics(st, num_samples=6, burn_in=1, steps=1, initial_state=x)))

    def interlude(rep, st):
        """what a longer script does between two seeded repetitions - none of it may influence the next one"""
        if rep == 0:
            # calls the library (correctly) refuses; the caller catches the error and goes on
            for bad_call in (lambda: L.unitaries.create_dict(W=[[1.0, 2.0], [3.0]]), lambda: L.unitaries.create_dict(W="not a matrix"),
                             lambda: st.save(os.path.join(HOME, ".work", "never_written.pt"), {"rbm_am": 1}),
                             lambda: st.generate_hilbert_space(st.max_size + 1),
                             lambda: L.callbacks.EarlyStopping(1, 0.1, 1, L.callbacks.MetricEvaluator(1, {"m": lambda s_: 0.0}), "m", criterion="variance"),
                             lambda: O.SigmaZ() * O.SigmaX(),
                             lambda: L.ComplexWaveFunction(2, gpu=False).fit(DATA, epochs=1)):
                try:
                    bad_call()
                except Exception:  # noqa: BLE001
                    pass
        else:
            # the same observable OBJECTS evaluated on other models (shorter and longer chains)
            for n_ in (2, 4):
                other = L.PositiveWaveFunction(n_, 2, gpu=False)
                sp_ = other.generate_hilbert_space()
                box["ni"].apply(other, sp_)
                O.SigmaX().apply(other, sp_)

    dd0 = torch.get_default_dtype()
    for name, f in entries:
        case = dict(kind=kind, layer="repeat-on-same-inputs", entry=name)
        acc.ev(1, nontrivial=True)
        box["ni"] = O.NeighbourInteraction(periodic_bcs=True, c=2)
        try:
            L.qucumber.set_random_seed(3, cpu=True, gpu=False, quiet=True)
            st = L.types[kind](3 if name.startswith("Neighbour") else 2, 2, gpu=False) if kind != "mixed" else L.types[kind](3 if name.startswith("Neighbour") else 2, 2, 2, gpu=False)
            x = (torch.tensor([[0.0, 1.0, 1.0], [1.0, 1.0, 0.0], [1.0, 0.0, 0.0]], dtype=torch.double) if name.startswith("Neighbour") else DATA).clone()
            x0 = x.clone()
            res = []
            for rep in range(3):
                if rep:
                    g_ = torch.get_rng_state()
                    interlude(rep - 1, st)
                    torch.set_rng_state(g_)
                    if torch.get_default_dtype() != dd0:
                        acc.viol("repro:process-wide-default-dtype-changed-by-a-library-call", case, observed=str(torch.get_default_dtype()), expected=str(dd0))
                        torch.set_default_dtype(dd0)
                        break
                L.qucumber.set_random_seed(11, cpu=True, gpu=False, quiet=True)
                if f is None:
                    ev = L.callbacks.ObservableEvaluator(1, [O.SigmaZ()], num_samples=6, burn_in=1, steps=1, initial_state=x)
                    call(ev.on_epoch_end, st, 1)
                    res.append(Hx(ev.last))
                else:
                    res.append(Hx(call(f, st, x)))
                acc.transitions += 1
            if not torch.equal(x, x0):
                acc.viol("repro:caller-owned-start-state-modified:" + name, case, observed=x.tolist(), expected=x0.tolist())
            elif len(set(res)) != 1:
                acc.viol("repro:same-seeded-call-repeated-on-the-same-inputs-differs:" + name, case, observed=[str(r) for r in res])
            else:
                acc.traces += 1
            acc.outcome(sha([name, res[0]]))
        except LibRaised as e:
            acc.viol(f"repro:raised:{e.kind}:{e.site}", case, observed=e.tb)


def Hx(x):
    if isinstance(x, torch.Tensor):
        return hashlib.sha256(str(x.dtype).encode() + x.detach().contiguous().numpy().tobytes()).hexdigest()[:12]
    if isinstance(x, np.ndarray):
        return hashlib.sha256(x.tobytes()).hexdigest()[:12]
    if isinstance(x, dict):
        return tuple(sorted((k, Hx(v)) for k, v in x.items()))
    if isinstance(x, (list, tuple)):
        return tuple(Hx(v) for v in x)
    if isinstance(x, float) and x != x:
        return "nan"
    return repr(x)


def params(st):
    return tuple(Hx(p) for net in st.networks for p in getattr(st, net).parameters())


def weight_hashes(st):
    return tuple((net + "." + n, Hx(p)) for net in st.networks for n, p in getattr(st, net).named_parameters() if "weights" in n)


def do(op, st, tmp):
    L = lib()
    O = L.observables
    two = len(st.networks) > 1
    kw = dict(input_bases=BASES_FIT) if two else {}
    sp = st.generate_hilbert_space()
    if op == "reinit":
        st.reinitialize_parameters()
        return None
    if op == "sample":
        return st.sample(k=3, num_samples=40)
    if op == "fit_saver":
        # training with the periodic model saver (all defaults) and a draw afterwards
        sv = L.callbacks.ModelSaver(1, os.path.join(tmp, "sv"), "m{}.pt")
        st.fit(DATA, epochs=2, pos_batch_size=2, k=1, lr=0.1, callbacks=[sv], **kw)
        return st.sample(k=2, num_samples=8)
    if op == "fit_callbacks":
        # fresh evaluator / early-stopping objects in every run: nothing may carry over from an earlier run of the process
        CB = L.callbacks
        me = CB.MetricEvaluator(1, {"m": lambda s_, **kw_: float(sum(p.sum() for p in s_.rbm_am.parameters()))})
        oe = CB.ObservableEvaluator(2, [O.SigmaZ()], num_samples=4, num_chains=2, burn_in=1, steps=1)
        es = CB.EarlyStopping(1, 1e9, 2, me, "m", criterion="absolute")   # stops at the first epoch with 3 evaluations
        eps = []
        st.fit(DATA, epochs=5, pos_batch_size=2, k=1, lr=0.1, callbacks=[me, oe, es, CB.LambdaCallback(on_epoch_end=lambda s_, e: eps.append(e))], **kw)
        st.stop_training = False
        return [eps, len(me), [int(e) for e in me.epochs], len(oe), me.last, oe.last]
    if op == "load_sample":
        # a checkpoint written earlier by this library (fixed parameters), loaded AFTER seeding: what is drawn next is
        # decided by the seed, not by anything stored in or restored from the file
        fx = os.path.join(tmp, "fixed_%s.pt" % st.__class__.__name__)
        if not os.path.exists(fx):
            g = torch.get_rng_state()
            torch.manual_seed(4242)
            type(st)(2, gpu=False).save(fx)
            torch.set_rng_state(g)
        st.load(fx)
        a_ = st.sample(k=2, num_samples=8)
        b_ = type(st).autoload(fx, gpu=False).sample(k=1, num_samples=4)
        return [a_, b_]
    if op == "sample_k0":
        # the documented boundary k = 0 / burn_in = 0: what comes back is the randomly drawn START of the chains - drawn,
        # like everything else, from the seeded stream
        return [st.sample(k=0, num_samples=24), O.SigmaZ().statistics(st, num_samples=16, num_chains=16, burn_in=0, steps=0)]
    if op == "overwrite_space":
        # the caller owns what generate_hilbert_space returned: advancing it in place is documented API
        own = st.generate_hilbert_space()
        return st.sample(k=1, initial_state=own, overwrite=True)
    if op == "sample_one":
        a = st.sample(k=2)  # a single chain (the default num_samples)
        b = st.sample(k=1, initial_state=DATA[0].clone())  # a single chain given as a vector
        return [a, b]
    if op == "stats_one":
        return O.SigmaZ().statistics(st, num_samples=3, num_chains=1, burn_in=1, steps=1)
    if op == "sample_init":
        return st.sample(k=2, initial_state=DATA.clone())
    if op == "stats":
        return O.SigmaX().statistics(st, num_samples=6, num_chains=3, burn_in=2, steps=1)
    if op == "sysstats":
        return O.System(O.SigmaZ(), O.SWAP([0])).statistics(st, num_samples=4, num_chains=2, burn_in=1)
    if op == "fit":
        st.fit(DATA, epochs=2, pos_batch_size=2, k=2, lr=0.1, **kw)
        return None
    if op == "fit_neg":
        st.fit(DATA, epochs=1, pos_batch_size=2, neg_batch_size=3, k=1, lr=0.1, **kw)
        return None
    if op == "grad":
        return st.gradient(DATA, BASES) if two else st.gradient(DATA)
    if op == "exact":
        return st.compute_exact_gradients(DATA, sp, bases_batch=BASES if two else None)
    if op == "rotate":
        if st.__class__.__name__ == "DensityMatrix":
            return L.unitaries.rotate_rho(st, "XY", sp)
        return L.unitaries.rotate_psi(st, "XY", sp) if two else st.psi(sp)
    if op == "metric":
        ts = training_statistics()
        return ts.NLL(st, DATA, sp, sample_bases=BASES if two else None)
    if op == "save":
        st.save(os.path.join(tmp, "x.pt"), {"a": 1})
        return None
    if op == "apply":
        return O.SigmaX().apply(st, sp)
    raise EngineError(op)


SEED_FORMS = {"cpu": dict(cpu=True, gpu=False, quiet=True), "default": dict(quiet=True), "cpu+gpu-flag": dict(cpu=True, gpu=True, quiet=True)}


def run(kind, hist, seed, perturb, tmp, form="cpu"):
    L = lib()
    L.qucumber.set_random_seed(seed, **SEED_FORMS[form])
    if perturb:
        np.random.seed(perturb)
        random.seed(perturb)
    n0 = np.random.get_state()
    r0 = random.getstate()
    st = L.types[kind](2, gpu=False)
    outs = [params(st)]
    run.drawn = [weight_hashes(st)]  # weight tensors right after construction / each reinitialisation
    ro_bad = None
    for op in hist:
        if perturb:
            np.random.rand(perturb % 5 + 1)
            random.random()
        before = params(st)
        r = call(do, op, st, tmp)
        if op in READONLY and params(st) != before and ro_bad is None:
            ro_bad = op
        outs.append((Hx(r), params(st)))
        if op == "reinit":
            run.drawn.append(weight_hashes(st))
    consumed = (not perturb) and (numpy_random_consumed(n0) or random.getstate() != r0)
    return outs, ro_bad, consumed


def check_history(acc, kind, hist, seed, tmp, flagged):
    case = dict(kind=kind, history=list(hist), seed=seed)

    def flag(sig, obs=None, exp=None, detail=None):
        if sig not in flagged:
            flagged.add(sig)
            acc.viol(sig, case, observed=obs, expected=exp, detail=detail)
        else:
            acc.n_violations += 1

    try:
        a, ro, consumed = run(kind, hist, seed, 0, tmp)
        drawn_a = list(run.drawn)
        b, _, _ = run(kind, hist, seed, 77 + seed, tmp)
        c, _, _ = run(kind, hist, seed + 1, 0, tmp)
        drawn_c = list(run.drawn)
    except LibRaised as e:
        flag(f"repro:raised:{e.kind}:{e.site}", e.tb)
        return
    acc.transitions += 3 * len(hist)
    randomized = any(op in ("reinit", "fit_saver", "fit_callbacks", "load_sample", "sample_k0", "overwrite_space", "sample", "sample_one", "stats_one", "sample_init", "stats", "sysstats", "fit", "fit_neg") for op in hist)
    acc.ev(1, nontrivial=randomized)
    ok = True
    if a != b:
        j = next(i for i in range(len(a)) if a[i] != b[i])
        op = hist[j - 1] if j else "construct"
        flag(f"repro:same-seed-runs-differ-under-foreign-rng-perturbation:{op}", detail=dict(first_difference_after=op))
        ok = False
    if ro is not None:
        flag(f"readonly:{ro}-changed-model-parameters")
        ok = False
    if a == c:
        flag("repro:different-seed-gives-identical-run")
        ok = False
    elif a[0] == c[0]:
        flag("repro:different-seed-gives-identical-initial-parameters")
        ok = False
    for j, op in enumerate(hist):
        if op == "load_sample" and a[j + 1][0] == c[j + 1][0]:
            flag("repro:different-seed-gives-identical-draws-after-loading-a-checkpoint")
            ok = False
            break
        if op == "sample_k0" and a[j + 1][0][0] == c[j + 1][0][0]:
            flag("repro:different-seed-gives-identical-start-states")
            ok = False
            break
    # every weight tensor of every network is (re)drawn from the seeded stream: with another seed each of
    # them must come out different, after construction and after each reinitialisation
    for wa, wc in zip(drawn_a, drawn_c):
        same = [n for (n, ha), (_, hc) in zip(wa, wc) if ha == hc]
        if same:
            flag("repro:weights-independent-of-the-seed:" + same[0].split(".")[0], detail=dict(unchanged=same))
            ok = False
            break
    if consumed:
        flag("repro:foreign-random-source-consumed")
        ok = False
    if ok:
        acc.traces += 1
    acc.outcome(sha(a[-1]))


def reinit_after_seeding(acc, kind, flagged):
    """seeding fixes everything that is drawn afterwards, whatever the model held before: a model built under some
    other seed, then seeded and reinitialised, must come out the same"""
    outs_ = []
    for prior in (101, 202):
        L_ = lib()
        L_.qucumber.set_random_seed(prior, cpu=True, gpu=False, quiet=True)
        st_ = L_.types[kind](2, gpu=False)
        L_.qucumber.set_random_seed(9, cpu=True, gpu=False, quiet=True)
        st_.reinitialize_parameters()
        outs_.append(params(st_))
        acc.transitions += 1
    if outs_[0] != outs_[1] and "repro:reinitialisation-after-seeding-depends-on-earlier-state" not in flagged:
        flagged.add("repro:reinitialisation-after-seeding-depends-on-earlier-state")
        acc.viol("repro:reinitialisation-after-seeding-depends-on-earlier-state", dict(kind=kind, history=["construct(other seed)", "set_random_seed", "reinit"], seed=9))


def run_item(item):
    acc = Acc()
    if item.get("layer") == "fresh-process":
        run_fresh_process(acc, item["kind"], item["tier"], seeds=(5,) if item["tier"] == "quick" else (5, item["vseed"] % 2 ** 32))
        acc.states = acc.evaluations
        acc.sample(dict(kind=item["kind"], layer="fresh-process", hash_seeds=HASHSEEDS[item["tier"]]), cap=1)
        return acc
    if item.get("layer") == "repeat-on-same-inputs":
        run_repeat(acc, item["kind"])
        acc.states = acc.evaluations
        return acc
    kind, first, tier = item["kind"], item["first"], item["tier"]
    tmp = tempfile.mkdtemp(prefix="c14_", dir=os.path.join(HOME, ".work"))
    flagged = set()
    seeds = [0, 1, 1234] + ([item["vseed"]] if item["vseed"] not in (0, 1, 1234) else [])
    try:
        hs = [(first,)] + [(first, b) for b in OPS]
        for h in hs:
            for s in seeds:
                check_history(acc, kind, h, s, tmp, flagged)
        # a different seed yields different draws: pairwise, not only s vs s+1
        # torch's CPU generator keeps 32 seed bits: larger seeds are outside what the library controls
        many = [0, 1, 2, 3, 4, 1234, 1236, 2 ** 31, 2 ** 32 - 1] + ([item["vseed"] % 2 ** 32] if item["vseed"] % 2 ** 32 not in (0, 1, 2, 3, 4, 1234, 1236) else [])
        runs = {}
        for s_ in many:
            try:
                runs[s_] = run(kind, (first,), s_, 0, tmp)[0]
            except LibRaised as e:
                acc.viol(f"repro:raised:{e.kind}:{e.site}", dict(kind=kind, history=[first], seed=s_), observed=e.tb)
                break
            acc.transitions += 1
        ks = list(runs)
        for i in range(len(ks)):
            for j in range(i + 1, len(ks)):
                if runs[ks[i]] == runs[ks[j]] and "repro:two-different-seeds-give-identical-runs" not in flagged:
                    flagged.add("repro:two-different-seeds-give-identical-runs")
                    acc.viol("repro:two-different-seeds-give-identical-runs", dict(kind=kind, history=[first], seed=ks[i], other_seed=ks[j]))
        # every documented way of calling the seeding function must seed the CPU generator
        # (gpu=True on a host without CUDA falls back with a warning)
        base_run = run(kind, (first,), 7, 0, tmp)[0]
        for form in ("default", "cpu+gpu-flag"):
            acc.transitions += 1
            if run(kind, (first,), 7, 0, tmp, form=form)[0] != base_run and "repro:seeding-call-form-does-not-seed:" + form not in flagged:
                flagged.add("repro:seeding-call-form-does-not-seed:" + form)
                acc.viol("repro:seeding-call-form-does-not-seed:" + form, dict(kind=kind, history=[first], seed=7, form=form))
        # seeding fixes everything that is drawn afterwards, whatever the model held before: a model built
        # under some other seed, then seeded and reinitialised, must come out the same
        if first == "reinit":
            reinit_after_seeding(acc, kind, flagged)
        third = ["reinit", "sample", "stats", "sysstats", "fit", "fit_callbacks", "load_sample", "sample_k0", "grad", "metric", "save"] if tier == "quick" else OPS
        for b in OPS:
            for c in third:
                check_history(acc, kind, (first, b, c), 0, tmp, flagged)
        if tier == "thorough":
            core = ["reinit", "sample", "stats", "fit", "fit_neg", "grad", "metric", "save"]
            if first in core:
                for b, c, d in itertools.product(core, repeat=3):
                    check_history(acc, kind, (first, b, c, d), item["vseed"], tmp, flagged)
    finally:
        shutil.rmtree(tmp, ignore_errors=True)
    acc.states = acc.evaluations
    acc.sample(dict(kind=kind, history=[first, "fit", "sample"], seeds=seeds, runs=["seed s", "seed s + numpy/random perturbed", "seed s+1"]), cap=1)
    return acc


def replay(case):
    acc = Acc()
    if case.get("layer") == "fresh-process":
        run_fresh_process(acc, case["kind"], "thorough", seeds=(case["seed"],))
        return acc
    if case.get("layer") == "repeat-on-same-inputs":
        run_repeat(acc, case["kind"])
        return acc
    if case.get("history") and case["history"][0] == "construct(other seed)":
        acc.ev(1)
        reinit_after_seeding(acc, case["kind"], set())
        return acc
    tmp = tempfile.mkdtemp(prefix="c14_", dir=os.path.join(HOME, ".work"))
    try:
        if "form" in case:
            a = run(case["kind"], tuple(case["history"]), case["seed"], 0, tmp)[0]
            b = run(case["kind"], tuple(case["history"]), case["seed"], 0, tmp, form=case["form"])[0]
            acc.ev(1)
            if a != b:
                acc.viol("repro:seeding-call-form-does-not-seed:" + case["form"], case)
            return acc
        if "other_seed" in case:
            a = run(case["kind"], tuple(case["history"]), case["seed"], 0, tmp)[0]
            b = run(case["kind"], tuple(case["history"]), case["other_seed"], 0, tmp)[0]
            acc.ev(1)
            if a == b:
                acc.viol("repro:two-different-seeds-give-identical-runs", case)
            return acc
        check_history(acc, case["kind"], tuple(case["history"]), case["seed"], tmp, set())
    finally:
        shutil.rmtree(tmp, ignore_errors=True)
    return acc
