"""C20 - model construction and reset honour their documented contracts.

E2-style exhaustive enumeration of histories construct(mode) ; (reinitialise | fit with each of four
optimizers | fit without bases | in-place mutation of one network)* up to depth 3, per state type,
with identity / storage-pointer / hash invariants evaluated after every operation and inside every
training batch.
"""
import hashlib
import itertools
import numpy as np
import torch

from ..common import lib, call, LibRaised, sha, EngineError
from ..engine.acc import Acc
from ..engine.env import Owned

ID = "C20"
ENGINE_NAME = "E2 history enumeration"
RULE = ("one evaluation = one history (construction mode + up to 3 operations) on a fresh state with the invariants checked after "
        "every operation and at every batch end; non-trivial = history contains a training run or a reinitialisation; distinct = "
        "distinct (state type, construction mode, history)")
ASSUMPTIONS = ["user-supplied purification modules have a zero auxiliary bias (the documented value of the phase network's)"]
COUNTS = ("states = histories (no merging); transitions = operations executed; traces_validated_against_impl = histories whose every "
          "invariant held")
OPS = ["reinit", "fit-sgd", "fit-momentum", "fit-adam", "fit-weight-decay", "fit-nobases", "mutate-am", "mutate-ph"]
MODES = ["sizes", "sizes-default", "sizes-gpu-flag", "sizes-numpy-ints", "module", "module-default-hidden", "module-zero-weights"]
DATA = torch.tensor([[0.0, 1.0, 1.0], [1.0, 1.0, 0.0], [1.0, 0.0, 0.0]], dtype=torch.double)
BASES = np.array([list("ZZZ"), list("XYZ"), list("YZX")])


def bound(tier):
    return dict(depth=3 if tier == "quick" else 4, operations=OPS, modes=MODES, kinds=["positive", "complex", "mixed"])


def plan(tier, seed):
    items = []
    for kind in ("positive", "complex", "mixed"):
        for mode in MODES:
            for first in OPS:
                items.append(dict(kind=kind, mode=mode, first=first, tier=tier))
    return items


def H(t):
    return hashlib.sha256(t.detach().contiguous().numpy().tobytes()).hexdigest()[:12]


def ptrs(r):
    return {p.data_ptr() for p in r.parameters()}


def opt_of(op):
    return {"fit-sgd": (torch.optim.SGD, {}), "fit-momentum": (torch.optim.SGD, {"momentum": 0.9}), "fit-adam": (torch.optim.Adam, {}),
            "fit-weight-decay": (torch.optim.SGD, {"weight_decay": 0.1})}[op]


def construct(kind, mode, why):
    L = lib()
    T = L.types[kind]
    torch.manual_seed(3)
    if mode.startswith("module"):
        nh = None if mode == "module-default-hidden" else 2
        zw = mode == "module-zero-weights"  # a documented construction option of the RBM classes
        if kind == "mixed":
            m = L.PurificationRBM(3, nh, 4, zero_weights=zw, gpu=False)
        else:
            m = L.BinaryRBM(3, nh, zero_weights=zw, gpu=False)
        for p in m.parameters():
            if not zw or p.dim() == 1:
                p.data.add_(0.2)
        if kind == "mixed":
            m.aux_bias.data.zero_()
        want = [(n, H(p)) for n, p in m.named_parameters()]
        mptr = [p.data_ptr() for p in m.parameters()]
        try:
            st = call(T, 3, gpu=False, module=m)
        except LibRaised as e:
            why.append((f"construct:module-path-raised:{e.kind}", dict(error=str(e))))
            return None, None
        construct.user_module = (m, mptr)
        if st.rbm_am is not m or [p.data_ptr() for p in st.rbm_am.parameters()] != mptr:
            why.append(("construct:amplitude-network-is-not-the-supplied-module", None))
        if len(st.networks) > 1:
            if [(n, H(p)) for n, p in st.rbm_ph.named_parameters()] != want:
                why.append(("construct:phase-network-is-not-a-copy-of-the-module", None))
            if type(st.rbm_ph) is not type(m):
                why.append(("construct:phase-network-type", None))
        shapes = (3, 3 if nh is None else 2, 4)
        if len(st.networks) > 1 and mode == "module":
            # the phase network is a copy of the module AS SUPPLIED: building a second state and changing the amplitude
            # network (in place, and by reinitialising it) before anything looked at the phase network must not matter
            for how in ("in-place", "reinitialise"):
                torch.manual_seed(4)
                m2 = L.PurificationRBM(3, 2, 4, gpu=False) if kind == "mixed" else L.BinaryRBM(3, 2, gpu=False)
                for p_ in m2.parameters():
                    p_.data.add_(0.2)
                if kind == "mixed":
                    m2.aux_bias.data.zero_()
                want2 = [(n_, H(p_)) for n_, p_ in m2.named_parameters()]
                st2 = call(T, 3, gpu=False, module=m2)
                if how == "in-place":
                    for p_ in m2.parameters():
                        p_.data.mul_(-1.5).add_(0.3)
                else:
                    m2.initialize_parameters()
                if [(n_, H(p_)) for n_, p_ in st2.rbm_ph.named_parameters()] != want2:
                    why.append(("construct:phase-network-is-not-a-copy-of-the-module-as-supplied", dict(amplitude_changed=how)))
                    break
    elif mode == "sizes":
        st = call(T, 3, 2, gpu=False) if kind != "mixed" else call(T, 3, 2, 4, gpu=False)
        shapes = (3, 2, 4)
    elif mode == "sizes-numpy-ints":
        # the sizes as numpy integers (an element of a sweep array): the requested shapes all the same
        import numpy as _np
        st = call(T, _np.int64(3), _np.int32(2), gpu=False) if kind != "mixed" else call(T, _np.int64(3), _np.int32(2), _np.int64(4), gpu=False)
        shapes = (3, 2, 4)
    elif mode == "sizes-gpu-flag":
        # gpu=True on a machine without a GPU is documented to fall back to the CPU with a warning
        st = call(T, 3, 2, gpu=True) if kind != "mixed" else call(T, 3, 2, 4, gpu=True)
        shapes = (3, 2, 4)
        if any(p.device.type != "cpu" for net in st.networks for p in getattr(st, net).parameters()) or str(st.device) != "cpu":
            why.append(("construct:gpu-flag-without-gpu-does-not-fall-back-to-cpu", None))
    else:
        st = call(T, 3, gpu=False)
        shapes = (3, 3, 3)
    if (st.num_visible, st.num_hidden) != shapes[:2] or (kind == "mixed" and st.num_aux != shapes[2]):
        why.append(("construct:sizes-differ-from-request", dict(got=[st.num_visible, st.num_hidden, getattr(st, "num_aux", None) if kind == "mixed" else None], want=shapes)))
    for net in st.networks:
        r = getattr(st, net)
        wshape = {"weights": (shapes[1], shapes[0]), "weights_W": (shapes[1], shapes[0]), "weights_U": (shapes[2], shapes[0]), "visible_bias": (shapes[0],),
                  "hidden_bias": (shapes[1],), "aux_bias": (shapes[2],)}
        for n, p in r.named_parameters():
            if tuple(p.shape) != wshape[n]:
                why.append(("construct:parameter-shape", dict(name=n, got=list(p.shape), want=wshape[n])))
        if not mode.startswith("module"):
            if any(float(p.abs().sum()) != 0 for n, p in r.named_parameters() if "bias" in n):
                why.append(("construct:bias-not-zero", None))
            if any(float(p.abs().sum()) == 0 for n, p in r.named_parameters() if "weights" in n):
                why.append(("construct:weights-not-random", None))
    if len(st.networks) > 1 and not mode.startswith("module"):
        a = [H(p) for n, p in st.rbm_am.named_parameters() if "weights" in n]
        b = [H(p) for n, p in st.rbm_ph.named_parameters() if "weights" in n]
        if a == b:
            why.append(("construct:amplitude-and-phase-weights-identical", None))
    return st, shapes


def independence(st, why, tag):
    if len(st.networks) < 2:
        return
    if ptrs(st.rbm_am) & ptrs(st.rbm_ph) or st.rbm_am is st.rbm_ph:
        why.append(("independence:networks-share-parameter-storage", dict(after=tag)))
        return
    for a, b in (("rbm_am", "rbm_ph"), ("rbm_ph", "rbm_am")):
        before = [H(p) for p in getattr(st, b).parameters()]
        for p in getattr(st, a).parameters():
            p.data.add_(0.125)
        changed = before != [H(p) for p in getattr(st, b).parameters()]
        for p in getattr(st, a).parameters():
            p.data.sub_(0.125)
        if changed:
            why.append(("independence:changing-one-network-changes-the-other", dict(after=tag, changed=a)))
            return


def apply_op(st, kind, op, why, shapes):
    L = lib()
    allp = lambda: [(net, n, H(p), tuple(p.shape)) for net in st.networks for n, p in getattr(st, net).named_parameters()]  # noqa: E731
    if op == "reinit":
        old = allp()
        call(st.reinitialize_parameters)
        new = allp()
        if len(old) != len(new):
            why.append(("reinit:parameter-set-changed", None))
            return
        for (net, n, h0, s0), (_, _, h1, s1) in zip(old, new):
            if s0 != s1:
                why.append(("reinit:shape-changed", dict(name=n)))
            if "weights" in n and h0 == h1:
                why.append((f"reinit:weights-not-redrawn:{net}", dict(name=n)))
            if "bias" in n and float(getattr(getattr(st, net), n).abs().sum()) != 0:
                why.append(("reinit:bias-not-zero", dict(name=n)))
    elif op.startswith("fit-") and op != "fit-nobases":
        oc, oa = opt_of(op)
        kw = dict(input_bases=BASES) if kind != "positive" else {}
        bad = []

        def on_batch_end(nn, ep, b):
            if kind == "mixed":
                ab = nn.rbm_ph.aux_bias
                if float(ab.abs().sum()) != 0:
                    bad.append("phase-auxiliary-bias-moved")
                if ab.grad is not None and float(ab.grad.abs().sum()) != 0:
                    bad.append("phase-auxiliary-bias-gradient-nonzero")

        cb = L.callbacks.LambdaCallback(on_batch_end=on_batch_end)
        torch.manual_seed(5)
        try:
            call(st.fit, DATA, epochs=2, pos_batch_size=2, lr=0.1, optimizer=oc, optimizer_args=oa, callbacks=[cb], **kw)
        except LibRaised as e:
            why.append((f"train:raised:{e.kind}", dict(op=op, error=str(e))))
            return
        for x in sorted(set(bad)):
            why.append((f"train:{x}", dict(optimizer=op)))
    elif op == "fit-nobases":
        if kind == "positive":
            return
        ev = []
        bumped = kind == "mixed"
        if bumped:
            st.rbm_ph.aux_bias.data.add_(0.375)  # a user-assigned value: a refused call must leave even this alone
        before = [h for (_, _, h, _) in allp()]
        env = Owned(None, mode="observe")
        rs = torch.get_rng_state().clone()
        cbs = [L.callbacks.LambdaCallback(on_train_start=lambda s: ev.append("train_start"), on_epoch_start=lambda s, e: ev.append("epoch_start"),
                                          on_train_end=lambda s: ev.append("train_end"))]
        try:
            with env:
                st.fit(DATA, epochs=1, callbacks=cbs)
            why.append(("nobases:training-without-bases-accepted", None))
        except ValueError:
            pass
        except Exception as e:  # noqa: BLE001
            why.append((f"nobases:refused-with-{type(e).__name__}-not-ValueError", dict(error=str(e))))
        # the refusal does not depend on the state the model is in: with a stop request still pending (the
        # normal condition after an early-stopped run) the call is refused all the same, not silently skipped
        st.stop_training = True
        try:
            with env:
                st.fit(DATA, epochs=1, callbacks=cbs)
            why.append(("nobases:training-without-bases-accepted-while-a-stop-is-pending", None))
        except ValueError:
            pass
        except Exception as e:  # noqa: BLE001
            why.append((f"nobases:refused-with-{type(e).__name__}-not-ValueError", dict(error=str(e), stop_pending=True)))
        if st.stop_training is not True:
            why.append(("nobases:refused-call-cleared-the-stop-request", None))
        st.stop_training = False
        if ev or before != [h for (_, _, h, _) in allp()] or env.calls or not torch.equal(rs, torch.get_rng_state()):
            why.append(("nobases:something-changed-before-refusal", dict(events=ev, random_calls=env.calls[:3])))
        if bumped:
            st.rbm_ph.aux_bias.data.zero_()
    elif op in ("mutate-am", "mutate-ph"):
        net = "rbm_am" if op == "mutate-am" else "rbm_ph"
        if net not in st.networks:
            return
        other = [n for n in st.networks if n != net]
        before = {o: [H(p) for p in getattr(st, o).parameters()] for o in other}
        for p in getattr(st, net).parameters():
            if not (kind == "mixed" and net == "rbm_ph" and p is getattr(st, net).aux_bias):
                p.data.mul_(1.5).add_(0.01)
        for o in other:
            if before[o] != [H(p) for p in getattr(st, o).parameters()]:
                why.append(("independence:changing-one-network-changes-the-other", dict(changed=net)))
    else:
        raise EngineError(op)


def check_history(acc, kind, mode, hist, flagged):
    case = dict(kind=kind, mode=mode, history=list(hist))
    why = []
    try:
        st, shapes = construct(kind, mode, why)
        if st is not None:
            independence(st, why, "construct")
            for op in hist:
                if why:
                    break
                apply_op(st, kind, op, why, shapes)
                independence(st, why, op)
                acc.transitions += 1
                if mode.startswith("module") and not why:
                    # "uses that RBM as the amplitude network" is a standing contract: after reinitialising or
                    # training, the user's module OBJECT is still what the state uses (its parameter tensors may
                    # legitimately be re-created: initialize_parameters() binds fresh nn.Parameter objects)
                    m, mptr = construct.user_module
                    if st.rbm_am is not m:
                        why.append(("construct:supplied-module-no-longer-the-amplitude-network", dict(after=op)))
    except LibRaised as e:
        why.append((f"contracts:raised:{e.kind}:{e.site}", dict(tb=e.tb)))
    acc.ev(1, nontrivial=any(o.startswith("fit") or o == "reinit" for o in hist))
    if not why:
        acc.traces += 1
    for sig, detail in why[:2]:
        if sig not in flagged:
            flagged.add(sig)
            acc.viol(sig, case, detail=detail)
        else:
            acc.n_violations += 1
    acc.outcome(sha([kind, mode, list(hist), [s for s, _ in why]]))


def run_item(item):
    acc = Acc()
    kind, mode, first, tier = item["kind"], item["mode"], item["first"], item["tier"]
    flagged = set()
    hs = [(first,)] + [(first, b) for b in OPS] + [(first, b, c) for b in OPS for c in OPS]
    if tier == "thorough":
        core = ["reinit", "fit-sgd", "fit-adam", "fit-nobases", "mutate-am"]
        if first in core:
            hs += [(first, b, c, d) for b, c, d in itertools.product(core, repeat=3)]
    if first == OPS[0]:
        hs = [()] + hs
    for h in hs:
        check_history(acc, kind, mode, h, flagged)
    acc.states = acc.evaluations
    acc.sample(dict(kind=kind, mode=mode, history=[first, "fit-adam", "reinit"]), cap=1)
    return acc


def replay(case):
    acc = Acc()
    check_history(acc, case["kind"], case["mode"], tuple(case["history"]), set())
    return acc
