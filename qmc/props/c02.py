"""C02 - the reconstructed density matrix is always a physical state.

E3 lattice: architectures x parameter lattice x all (sigma, sigma') x call forms, real code vs the
brute-force partial trace over the auxiliary units of the purified two-network state.
Entries are compared on the scale sqrt(rho_ii rho_jj) (stable when one parameter at +-30 spreads the
entries over tens of decades).
"""
import numpy as np
import torch

from ..common import (lib, call, LibRaised, build_state, param_assignments, split_purif, close, maxerr, sha, tbits)
from ..engine.acc import Acc
from ..ref import models as R

ID = "C02"
ENGINE_NAME = "E3 input lattice"
RULE = ("one case = (architecture, parameter assignment of both networks, phase auxiliary bias = 0); each case evaluates "
        "rho on ALL pairs of basis states through every call form (matrix, omitted vp, aligned lists with expand=False, "
        "every single 1-D pair, rectangular blocks) and compares with the brute-force purification partial trace; "
        "non-trivial = all amplitude biases (visible, hidden, auxiliary) non-zero; distinct = distinct (arch, parameters)")
ASSUMPTIONS = ["phase-network auxiliary bias held at its documented value 0",
               "entries compared relative to sqrt(rho_ii rho_jj) with tolerance 1e-9; PSD as lambda_min >= -1e-9 of the "
               "correlation-normalised Hermitian part"]
TOL = 1e-9


def archs(tier):
    out = []
    if tier == "quick":
        for nv in (1, 2, 3):
            for nh in (1, 2):
                for na in (1, 2, 3):
                    out.append(([nv, nh, na], 1))
        for a in ([1, 1, 4], [2, 2, 4], [4, 1, 1], [4, 2, 2], [2, 4, 2], [3, 3, 3], [1, 4, 1]):
            out.append((a, 0))
    else:
        for nv in (1, 2, 3, 4):
            for nh in (1, 2, 3, 4):
                for na in (1, 2, 3, 4):
                    npar = nv * nh + nv * na + nv + nh + na
                    out.append(([nv, nh, na], 2 if npar <= 8 else 1))
    return out


def bound(tier):
    return dict(architectures=[a for a, _ in archs(tier)], patterns=3, deviations="1 on listed cube, 2 where <= 8 parameters per network (thorough)",
                pairs="all (sigma, sigma')", call_forms=["rho(space,space)", "rho(space)", "rho(v_list,vp_list,expand=False)",
                                                        "rho(v,vp) for every 1-D pair", "rho(space,expand=False)", "rho(space, space[:m])", "rho(x, x) / rho(x, x, expand=False) with the same object"],
                sampler="Gibbs kernel from the library's conditionals (out= none/ones/zeros) on [1,1,1],[2,1,2],[2,2,1],[3,2,2]" + ("" if tier == "quick" else ",[3,3,2],[4,2,2]") + " x 4 parameter patterns: invariance + detailed balance")


def plan(tier, seed):
    items = []
    for arch, dev in archs(tier):
        for q in range(3):
            items.append(dict(arch=arch, q=q, dev=dev))
    for arch in ([1, 1, 1], [2, 1, 2], [2, 2, 1], [3, 2, 2]):
        items.append(dict(arch=arch, scope="stateful"))
    for arch in [[1, 1, 1], [2, 1, 2], [2, 2, 1], [3, 2, 2]] + ([] if tier == "quick" else [[3, 3, 2], [4, 2, 2]]):
        items.append(dict(arch=arch, scope="sampler"))
    # strongly polarised states (visible biases around +-10: matrix elements spread over ~25 decades)
    for arch in ([2, 2, 2], [3, 1, 1], [3, 2, 2]):
        items.append(dict(arch=arch, scope="polarised"))
    return items


def check_case(acc, arch, params, st=None, history=None):
    case = dict(kind="mixed", arch=arch, params=params)
    if history is not None:
        case["history"] = history
    L = lib()
    st = build_state("mixed", arch, params) if st is None else st
    n = arch[0]
    D = 2 ** n
    from ..common import space_of
    space = space_of(st, n)
    lam, mu = split_purif(params[0], arch), split_purif(params[1], arch)
    ref, ld = R.rho_ref_scaled(lam, mu)  # scaled reference, log-diagonal
    scale = np.exp(0.5 * (ld[:, None] + ld[None, :]))
    acc.ev(1, nontrivial=all(x != 0 for x in params[0][arch[0] * arch[1] + arch[0] * arch[2]:]))

    def bad(sig, obs=None, exp=None, detail=None):
        acc.viol(sig, case, observed=obs, expected=exp, detail=detail, tol=TOL)

    def scaled(m):
        return m / scale

    try:
        full = L.cplx.numpy(call(st.rho, space, space))
        if full.shape != (D, D):
            bad("rho:shape", list(full.shape), [D, D])
            return
        s_full = scaled(full)
        e = maxerr(s_full, ref)
        acc.err(e)
        if not close(s_full, ref, TOL, at=TOL):
            bad("rho:entries-differ-from-purification-partial-trace", full, ref * scale, detail=dict(scaled_err=e))
        if not close(s_full, s_full.conj().T, TOL, at=TOL):
            bad("rho:not-hermitian", s_full, s_full.conj().T)
        herm = (s_full + s_full.conj().T) / 2
        if np.all(np.isfinite(herm)):
            lmin = float(np.linalg.eigvalsh(herm).min())
            if lmin < -1e-9:
                bad("rho:not-positive-semidefinite", lmin, ">= -1e-9")
        p = call(st.probability, space).numpy()
        Z = float(call(st.normalization, space))
        with np.errstate(all="ignore"):
            if not close(np.log(np.real(np.diag(full))), np.log(p), TOL) or not close(np.imag(np.diag(s_full)), np.zeros(D), TOL, at=TOL):
                bad("rho:diagonal-differs-from-reported-probability", np.diag(full), p)
            if not close(np.log(p), ld, TOL):
                bad("rho:reported-probability-differs-from-purification-diagonal", p, np.exp(ld))
            if not close(np.log(np.trace(full).real), np.log(Z), TOL) or not close(np.log(Z), R.lse(ld, 0), TOL):
                bad("rho:trace-differs-from-normalization", float(np.trace(full).real), Z)
        # other call forms must give the same entries
        f2 = L.cplx.numpy(call(st.rho, space))
        if not close(scaled(f2), s_full, 1e-12, at=1e-12):
            bad("rho:form:vp-omitted", f2, full)
        vl = space.repeat_interleave(D, 0)
        vpl = space.repeat(D, 1)
        f3 = L.cplx.numpy(call(st.rho, vl, vpl, expand=False))
        if f3.shape != (D * D,) or not close(scaled(f3.reshape(D, D)), s_full, 1e-12, at=1e-12):
            bad("rho:form:aligned-lists-expand-false", f3, full.reshape(-1))
        f4 = L.cplx.numpy(call(st.rho, space, expand=False))
        if f4.shape != (D,) or not close(f4.real / p, np.ones(D), 1e-12) or np.any(f4.imag != 0):
            bad("rho:form:expand-false-vp-omitted", f4, p)
        # batches that are not in basis order (reversed; an unordered subset without repeats; with repeats): the
        # reported probabilities and the paired diagonal follow the ROWS of the batch
        for nm_, ix_ in (("reversed", list(range(D - 1, -1, -1))), ("unordered-subset", [D - 1, 0] + ([D // 2] if D > 2 else [])), ("with-repeat", [D - 1, 0, D - 1])):
            sub_ = space[ix_]
            po_ = call(st.probability, sub_).numpy()
            ro_ = L.cplx.numpy(call(st.rho, sub_, expand=False))
            if po_.shape != (len(ix_),) or not close(po_ / p[ix_], np.ones(len(ix_)), 1e-12) or not close(ro_.real / p[ix_], np.ones(len(ix_)), 1e-12):
                bad("rho:form:batch-not-in-basis-order", po_, p[ix_], detail=dict(batch=nm_))
                break
        # the SAME tensor object passed as both arguments (the natural way to ask for the diagonal), paired and
        # expanded, with the argument left untouched
        keep = space.clone()
        f4b = L.cplx.numpy(call(st.rho, space, space, expand=False))
        dg = np.diag(full)  # same function, matrix form (itself compared with the reported probability above)
        if f4b.shape != (D,) or not close(f4b / np.abs(dg), dg / np.abs(dg), 1e-12, at=1e-12):
            bad("rho:form:same-object-twice-expand-false", f4b, dg)
        f4c = L.cplx.numpy(call(st.rho, space, space))
        if not close(scaled(f4c), s_full, 1e-12, at=1e-12) or not torch.equal(space, keep):
            bad("rho:form:same-object-twice", f4c, full)
        m = max(1, D // 2)
        f5 = L.cplx.numpy(call(st.rho, space, space[:m]))
        if f5.shape != (D, m) or not close(f5 / scale[:, :m], s_full[:, :m], 1e-12, at=1e-12):
            bad("rho:form:rectangular-block", f5, full[:, :m])
        f6 = L.cplx.numpy(call(st.rho, space[D - m:], space))
        if f6.shape != (m, D) or not close(f6 / scale[D - m:, :], s_full[D - m:, :], 1e-12, at=1e-12):
            bad("rho:form:rectangular-block", f6, full[D - m:, :])
        for i in range(D):
            for j in range(D):
                r = call(st.rho, space[i], space[j])
                if tuple(r.shape) != (2,) or not close(complex(r[0], r[1]) / scale[i, j], s_full[i, j], 1e-12, at=1e-12):
                    bad("rho:form:single-element-1d", r, full[i, j], detail=dict(i=i, j=j))
                    break
            else:
                continue
            break
    except LibRaised as e:
        bad(f"rho:raised:{e.kind}", e.tb)
    acc.outcome(sha(np.round(ref, 5)))
    acc.transitions += 3 * D * D + D


def stateful_seq(arch):
    from ..common import pattern, net_sizes, aux_bias_slice
    sizes = net_sizes("mixed", arch)
    sl = aux_bias_slice(arch)
    seq = []
    for q in range(7):
        ps = [pattern(n, q, r) for r, n in enumerate(sizes)]
        for t in range(sl.start, sl.stop):
            ps[1][t] = 0.0
        seq.append(ps)
    return seq


def run_stateful(acc, arch, upto=None):
    """non-initial states: one LIVE model evaluated, updated in place (four styles), evaluated again"""
    from ..common import update_params, UPDATE_STYLES
    seq = stateful_seq(arch)
    st = build_state("mixed", arch, seq[0])
    check_case(acc, arch, seq[0], st=st, history=[])
    hist = []
    for i, style in enumerate(UPDATE_STYLES):
        hist = hist + [dict(update=style, to_pattern=i + 1)]
        update_params(st, seq[i + 1], style)
        check_case(acc, arch, seq[i + 1], st=st, history=hist)


def run_sampler(acc, arch, only=None):
    """'...the unnormalised probabilities the model reports AND SAMPLES FROM': the block-Gibbs kernel assembled from
    the library's own conditionals - called the way gibbs_steps calls them, i.e. writing into running out= buffers
    that still hold the previous 0/1 state - leaves diag(rho)/tr(rho) invariant and satisfies detailed balance with
    it.  Exhaustive over every visible state and every (hidden, auxiliary) configuration; no sampling."""
    import itertools
    nv, nh, na = arch
    D = 2 ** nv
    for q, params in enumerate(stateful_seq(arch)[:4]):
        if only is not None and q != only:
            continue
        case = dict(kind="mixed", arch=arch, params=params, scope="sampler", q=q)
        st = build_state("mixed", arch, params)
        rbm = st.rbm_am
        acc.ev(1, nontrivial=True)
        try:
            space = call(st.generate_hilbert_space)
            pi = (call(st.probability, space) / call(st.normalization, space)).numpy()
            H_ = torch.tensor(list(itertools.product([0.0, 1.0], repeat=nh)), dtype=torch.double)
            A_ = torch.tensor(list(itertools.product([0.0, 1.0], repeat=na)), dtype=torch.double)
            HA = [(h, a) for h in H_ for a in A_]
            Hs, As = torch.stack([h for h, _ in HA]), torch.stack([a for _, a in HA])
            forms = {}
            for fill in (None, 1.0, 0.0):
                def buf(*shape):
                    return None if fill is None else torch.full(shape, fill, dtype=torch.double)
                ph = call(rbm.prob_h_given_v, space, out=buf(D, nh)).clone().numpy()
                pa = call(rbm.prob_a_given_v, space, out=buf(D, na)).clone().numpy()
                pv = call(rbm.prob_v_given_ha, Hs, As, out=buf(len(HA), nv)).clone().numpy()
                forms[fill] = (ph, pa, pv)
            for fill in (1.0, 0.0):
                if any(not close(x, y, 1e-12, at=1e-14) for x, y in zip(forms[fill], forms[None])):  # (not bit-for-bit: an out= path may legitimately round differently)
                    acc.viol("sampler:conditional-depends-on-previous-content-of-out-buffer", case, observed=[x.tolist() for x in forms[fill]], expected=[x.tolist() for x in forms[None]],
                             detail=dict(prefill=fill))
                    return
            ph, pa, pv = forms[1.0]
            sp = space.numpy()
            K = np.zeros((D, D))
            for i in range(D):
                for c, (h, a) in enumerate(HA):
                    w = np.prod(np.where(h.numpy() > 0, ph[i], 1 - ph[i])) * np.prod(np.where(a.numpy() > 0, pa[i], 1 - pa[i]))
                    K[i] += w * np.prod(np.where(sp > 0, pv[c], 1 - pv[c]), axis=1)
            if not close(K.sum(1), np.ones(D), 1e-12):
                acc.viol("sampler:kernel-rows-do-not-sum-to-one", case, observed=K.sum(1))
            elif not close(pi @ K, pi, 1e-10, at=1e-12):
                acc.viol("sampler:reported-distribution-not-invariant-under-the-gibbs-kernel", case, observed=pi @ K, expected=pi)
            elif not close(pi[:, None] * K, (pi[:, None] * K).T, 1e-10, at=1e-13):
                acc.viol("sampler:detailed-balance-with-reported-distribution", case, observed=pi[:, None] * K)
            acc.transitions += D * len(HA)
            acc.outcome(sha(np.round(K, 6)))
        except LibRaised as e:
            acc.viol(f"sampler:raised:{e.kind}", case, observed=e.tb)


def run_item(item):
    acc = Acc()
    if item.get("scope") == "sampler":
        run_sampler(acc, item["arch"])
        acc.sample(dict(kind="mixed", arch=item["arch"], scope="sampler", conditionals=["h|v", "a|v", "v|h,a"], out_buffers=["none", "ones", "zeros"]), cap=1)
        acc.states = acc.evaluations
        acc.traces = acc.evaluations
        return acc
    if item.get("scope") == "polarised":
        from .c10 import polarised_params
        for q in range(2):
            params = polarised_params("mixed", item["arch"], q)
            check_case(acc, item["arch"], params)
            acc.sample(dict(kind="mixed", arch=item["arch"], params=params, scope="polarised"), cap=1)
        acc.states = acc.evaluations
        acc.traces = acc.evaluations
        return acc
    if item.get("scope") == "stateful":
        run_stateful(acc, item["arch"])
        acc.sample(dict(kind="mixed", arch=item["arch"], scope="stateful", updates=["copy_", "rebind", "load_state_dict", "add_"]), cap=1)
        acc.states = acc.evaluations
        acc.traces = acc.evaluations
        return acc
    first = True
    for tag, params in param_assignments("mixed", item["arch"], npat=1, dev=item["dev"], q0=item["q"]):
        check_case(acc, item["arch"], params)
        if first:
            acc.sample(dict(kind="mixed", arch=item["arch"], tag=list(tag), params=params), cap=1)
            first = False
    acc.states = acc.evaluations
    acc.traces = acc.evaluations
    return acc


def replay(case):
    acc = Acc()
    if case.get("scope") == "sampler":
        run_sampler(acc, case["arch"], only=case.get("q"))
        return acc
    if case.get("history"):
        run_stateful(acc, case["arch"])
        return acc
    check_case(acc, case["arch"], case["params"])
    return acc
