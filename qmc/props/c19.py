"""C19 - basis-state indexing and data loading are mutually consistent.

E3 lattice: all sizes / indices (exhaustive for small n, structured rows up to the size limit),
tensor-product binding of array positions, generated data files, every bases array (small).
"""
import itertools
import os
import shutil
import tempfile
import numpy as np
import torch

from ..common import lib, call, LibRaised, build_state, close, sha, tbits, HOME
from ..engine.acc import Acc
from ..ref import models as R
from .c04 import c2t

ID = "C19"
ENGINE_NAME = "E3 input lattice"
RULE = ("one evaluation = one (size, index) agreement between generate_hilbert_space row, subspace_vector, index conversion and "
        "itertools.product order; or one tensor-product binding case; or one generated data file set loaded back; or one bases "
        "array for reference-basis extraction; non-trivial = index with both 0 and 1 bits / file with more than one row; "
        "distinct = distinct (layer, size, index | file content | bases array)")
ASSUMPTIONS = ["numpy.loadtxt drops size-1 axes: loader results are compared after flattening (shape beyond element order is not demanded)"]


def bound(tier):
    q = tier == "quick"
    return dict(full_spaces="n = 1..%d" % (10 if q else 15), structured_rows="n up to 20: {0,1,2^j,2^j+-1,2^n-1}",
                size_limit="max_size+1 refused; max_size accepted and spot-checked",
                loaders="N in {1,2,3,5} x n in {1,2,3} x bit patterns x 9-digit targets x basis alphabets",
                refbasis="every {X,Y,Z} assignment to N x n arrays, (N,n) in {(1,1),(1,2),(2,1),(2,2),(3,2),(2,3)}" + ("" if q else ",(3,3) structured"))


def plan(tier, seed):
    items = []
    nmax = 10 if tier == "quick" else 15
    for n in range(1, nmax + 1):
        items.append(dict(layer="space", n=n))
    items.append(dict(layer="structured", lo=11 if tier == "quick" else 16, hi=20))
    items.append(dict(layer="sequence"))
    items.append(dict(layer="limit", accept=True))
    for n in (1, 2, 3, 4) + (() if tier == "quick" else (5,)):
        items.append(dict(layer="binding", n=n))
    for N in (1, 2, 3, 5):
        for n in (1, 2, 3):
            items.append(dict(layer="loaders", N=N, n=n))
    for N, n in ((1, 1), (1, 2), (2, 1), (2, 2), (3, 2), (2, 3)):
        items.append(dict(layer="refbasis", N=N, n=n))
    return items


def idx_fn():
    L = lib()
    return getattr(L.unitaries, "_convert_basis_element_to_index", None)


def run_space(acc, n):
    st = build_state("positive", [3, 2])
    ref = R.bits(n)
    case = dict(layer="space", n=n)
    sp = call(st.generate_hilbert_space, n)
    acc.ev(1)
    if sp.dtype != torch.double or tuple(sp.shape) != ref.shape or not np.array_equal(sp.numpy(), ref):
        acc.viol("indexing:hilbert-space-rows-not-big-endian-product-order", case, observed=sp[:4], expected=ref[:4])
        return
    f = idx_fn()
    if f is not None:
        got = call(f, sp).numpy()
        acc.ev(1)
        if not np.array_equal(got, np.arange(2 ** n)):
            acc.viol("indexing:index-of-row-k-is-not-k", case, observed=got[:8], expected=list(range(8)))
    else:
        acc.count("index_function_unavailable")
    for k in range(2 ** n):
        v = call(st.subspace_vector, k, size=n)
        acc.ev(1, nontrivial=0 < k < 2 ** n - 1)
        if v.dtype != torch.double or not np.array_equal(v.numpy(), ref[k]):
            acc.viol("indexing:subspace-vector-differs-from-space-row", dict(case, k=k), observed=v, expected=ref[k])
            break
    # default size = num_visible of the state
    d = call(st.generate_hilbert_space)
    if not np.array_equal(d.numpy(), R.bits(3)):
        acc.viol("indexing:default-size-is-not-num-visible", case, observed=d, expected=R.bits(3))
    v = call(st.subspace_vector, 5)
    if not np.array_equal(v.numpy(), R.bits(3)[5]):
        acc.viol("indexing:default-size-is-not-num-visible", case, observed=v, expected=R.bits(3)[5])
    acc.outcome(f"space{n}")


def run_structured(acc, lo, hi):
    st = build_state("positive", [2, 2])
    f = idx_fn()
    for n in range(lo, hi + 1):
        ks = {0, 1, 2 ** n - 1} | {2 ** j for j in range(n)} | {2 ** j - 1 for j in range(1, n)} | {2 ** j + 1 for j in range(1, n - 1)}
        for k in sorted(ks):
            v = call(st.subspace_vector, k, size=n).numpy()
            acc.ev(1, nontrivial=0 < k < 2 ** n - 1)
            want = np.array([(k >> (n - 1 - i)) & 1 for i in range(n)], dtype=float)
            if not np.array_equal(v, want):
                acc.viol("indexing:subspace-vector-not-big-endian", dict(layer="structured", n=n, k=k), observed=v, expected=want)
                return
            if f is not None and int(call(f, torch.tensor(v)).item()) != k:
                acc.viol("indexing:index-of-row-k-is-not-k", dict(layer="structured", n=n, k=k), observed=int(f(torch.tensor(v)).item()), expected=k)
                return
        acc.outcome(f"structured{n}")


def run_limit(acc, accept):
    st = build_state("positive", [2, 2])
    ms = st.max_size
    acc.ev(1)
    try:
        st.generate_hilbert_space(ms + 1)
        acc.viol("indexing:oversize-space-not-refused", dict(layer="limit", size=ms + 1), expected="ValueError")
    except ValueError:
        acc.outcome("refused")
    except MemoryError:
        acc.viol("indexing:oversize-space-not-refused", dict(layer="limit", size=ms + 1), expected="ValueError")
    # every size beyond the limit, not only the first one (word-size boundaries of the index arithmetic included)
    for size in (ms + 2, 31, 32, 33, 62, 63, 64, 65, 100, 128, 1000):
        acc.ev(1)
        try:
            r = st.generate_hilbert_space(size)
            acc.viol("indexing:oversize-space-not-refused", dict(layer="limit", size=size), observed=list(r.shape), expected="ValueError")
            del r
        except ValueError:
            acc.outcome(f"refused:{size}")
        except (MemoryError, OverflowError, RuntimeError) as e:
            acc.viol("indexing:oversize-space-not-refused", dict(layer="limit", size=size), observed=type(e).__name__, expected="ValueError")
    for nv in (63, 64, 100):
        acc.ev(1)
        try:
            r = lib().PositiveWaveFunction(nv, 1, gpu=False).generate_hilbert_space()
            acc.viol("indexing:oversize-space-not-refused:default-size", dict(layer="limit", num_visible=nv), observed=list(r.shape), expected="ValueError")
        except ValueError:
            acc.outcome(f"refused:model{nv}")
        except (MemoryError, OverflowError, RuntimeError) as e:
            acc.viol("indexing:oversize-space-not-refused:default-size", dict(layer="limit", num_visible=nv), observed=type(e).__name__, expected="ValueError")
    # the limit applies to the EFFECTIVE size: a model with more visible units than the limit asked for its
    # own space (size omitted / None / 0 = "use num_visible") is refused just like an explicit oversize request
    L = lib()
    big = L.PositiveWaveFunction(ms + 1, 1, gpu=False)

    class Small(L.ComplexWaveFunction):
        @property
        def max_size(self):
            return 3
    small = Small(4, 1, gpu=False)
    for nm, fn in (("default-size", lambda: big.generate_hilbert_space()), ("size=None", lambda: big.generate_hilbert_space(None)),
                   ("size=0", lambda: big.generate_hilbert_space(0)), ("lowered-limit-default-size", lambda: small.generate_hilbert_space()),
                   ("lowered-limit-explicit", lambda: small.generate_hilbert_space(4))):
        acc.ev(1)
        try:
            r = fn()
            acc.viol("indexing:oversize-space-not-refused:" + nm, dict(layer="limit", form=nm), observed=list(r.shape), expected="ValueError")
            del r
        except ValueError:
            acc.outcome("refused:" + nm)
        except MemoryError:
            acc.viol("indexing:oversize-space-not-refused:" + nm, dict(layer="limit", form=nm), expected="ValueError")
    acc.ev(1)
    if tuple(call(small.generate_hilbert_space, 3).shape) != (8, 3):
        acc.viol("indexing:space-at-lowered-limit-wrong-or-refused", dict(layer="limit", size=3))
    if accept:
        acc.ev(1)
        sp = call(st.generate_hilbert_space, ms)
        ok = tuple(sp.shape) == (2 ** ms, ms)
        for k in (0, 1, 2 ** ms - 1, 2 ** (ms - 1), 0b1011 << 7):
            want = np.array([(k >> (ms - 1 - i)) & 1 for i in range(ms)], dtype=float)
            ok = ok and np.array_equal(sp[k].numpy(), want)
        if not ok:
            acc.viol("indexing:max-size-space-wrong-or-refused", dict(layer="limit", size=ms))
        acc.outcome("accepted")
    else:
        # one below the limit region is exercised cheaply through a mid-size space
        sp = call(st.generate_hilbert_space, 12)
        acc.ev(1)
        if tuple(sp.shape) != (4096, 12):
            acc.viol("indexing:space-shape", dict(layer="limit", size=12), observed=list(sp.shape))
        acc.outcome("mid")


def run_binding(acc, n):
    L = lib()
    case = dict(layer="binding", n=n)
    for kind in ("complex", "positive", "mixed"):
        arch = [n, 2] if kind != "mixed" else [n, 2, 1]
        st = build_state(kind, arch)
        b = np.array([0.3 * (i + 1) for i in range(n)])
        m = np.array([0.5 * (i + 1) - 0.2 for i in range(n)])
        for net in st.networks:
            r = getattr(st, net)
            for p in r.parameters():
                p.data.zero_()
        st.rbm_am.visible_bias.data = torch.tensor(b)
        if kind != "positive":
            st.rbm_ph.visible_bias.data = torch.tensor(m)
        space = tbits(n)
        acc.ev(1)
        prod = R.kron_all([np.array([[1.0], [np.exp((b[i] + (1j * m[i] if kind != "positive" else 0)) / 2)]]) for i in range(n)]).reshape(-1)
        if kind == "mixed":
            rho = L.cplx.numpy(call(st.rho, space, space))
            want = np.outer(prod, prod.conj())
            want = want / np.trace(want).real
            got = rho / np.trace(rho).real
        else:
            psi = L.cplx.numpy(call(st.psi, space))
            got = psi / psi[0]
            want = prod / prod[0]
        if not close(got, want, 1e-9):
            acc.viol("indexing:array-position-k-is-not-the-tensor-product-position", dict(case, kind=kind), observed=got, expected=want)
        if kind == "complex":
            # rotating site 0 only (basis X Z..Z) acts on the most significant bit
            basis = "X" + "Z" * (n - 1)
            U = R.basis_unitary(basis)
            psi = L.cplx.numpy(call(st.psi, space))
            got = L.cplx.numpy(call(L.unitaries.rotate_psi, st, basis, space))
            if not close(got, U @ psi, 1e-9):
                acc.viol("indexing:site0-is-not-the-leftmost-tensor-factor", dict(case, kind=kind), observed=got, expected=U @ psi)
            if n <= 3:
                import itertools as _it
                mst_ = build_state("mixed", [n, 1, 1])
                for bs in ("".join(x) for x in _it.product("XYZ", repeat=n)):
                    Ub = R.basis_unitary(bs)
                    for k in range(2 ** n):
                        e = np.eye(2 ** n, dtype=complex)[k]
                        g1 = L.cplx.numpy(call(L.unitaries.rotate_psi_inner_prod, st, bs, space, psi=c2t(e)))
                        g2 = call(L.unitaries.rotate_rho_probs, mst_, bs, space, rho=c2t(np.outer(e, e.conj()))).numpy()
                        acc.ev(1, nontrivial=True)
                        if not close(g1, Ub @ e, 1e-12) or not close(g2, np.abs(Ub @ e) ** 2, 1e-12):
                            acc.viol("indexing:accepted-array-position-k-is-not-basis-state-k", dict(case, kind=kind, k=k, basis=bs, path="per-outcome"), observed=g1, expected=Ub @ e)
                            break
            if n <= 2:
                # entry (j, k) of an ACCEPTED density-matrix array is <j| rho |k> (row index = ket): the Hermitian
                # units E_jk + E_kj and i(E_jk - E_kj) distinguish an array from its transpose in any basis with a Y
                import itertools as _it
                mst_ = build_state("mixed", [n, 1, 1])
                Dn = 2 ** n
                for bs in ("".join(x) for x in _it.product("XYZ", repeat=n)):
                    Ub = R.basis_unitary(bs)
                    stop_ = False
                    for j in range(Dn):
                        for k in range(j + 1, Dn):
                            for nm, Hm in (("sym", np.eye(Dn, dtype=complex)[[j]].T @ np.eye(Dn, dtype=complex)[[k]] + np.eye(Dn, dtype=complex)[[k]].T @ np.eye(Dn, dtype=complex)[[j]]),
                                           ("asym", 1j * (np.eye(Dn, dtype=complex)[[j]].T @ np.eye(Dn, dtype=complex)[[k]] - np.eye(Dn, dtype=complex)[[k]].T @ np.eye(Dn, dtype=complex)[[j]]))):
                                wantH = Ub @ Hm @ Ub.conj().T
                                g2 = call(L.unitaries.rotate_rho_probs, mst_, bs, space, rho=c2t(Hm)).numpy()
                                g3 = L.cplx.numpy(call(L.unitaries.rotate_rho, mst_, bs, space, rho=c2t(Hm)))
                                acc.ev(1, nontrivial=True)
                                if not close(g2, np.real(np.diag(wantH)), 1e-12, at=1e-12) or not close(g3, wantH, 1e-12, at=1e-12):
                                    acc.viol("indexing:accepted-matrix-position-(j,k)-is-not-<j|rho|k>", dict(case, kind=kind, j=j, k=k, basis=bs, unit=nm), observed=g2, expected=np.real(np.diag(wantH)))
                                    stop_ = True
                                    break
                            if stop_:
                                break
                        if stop_:
                            break
                    if stop_:
                        break
            for k in range(2 ** n):
                e = np.eye(2 ** n, dtype=complex)[k]
                got = L.cplx.numpy(call(L.unitaries.rotate_psi, st, basis, space, psi=c2t(e)))
                acc.ev(1, nontrivial=True)
                if not close(got, U @ e, 1e-12):
                    acc.viol("indexing:accepted-array-position-k-is-not-basis-state-k", dict(case, kind=kind, k=k), observed=got, expected=U @ e)
                    break
    acc.outcome(f"binding{n}")


def fmt9(x):
    return f"{x:.9e}"


def run_loaders(acc, N, n):
    L = lib()
    D = 2 ** n
    work = tempfile.mkdtemp(prefix="c19_", dir=os.path.join(HOME, ".work"))
    try:
        for variant in range(6):
            case = dict(layer="loaders", N=N, n=n, variant=variant)
            rows = [[((r * 5 + c * 3 + variant) >> (c % 3)) & 1 for c in range(n)] for r in range(N)]
            alpha = ["XYZ", "XZ", "ZY", "Z", "YX", "XYZ"][variant]
            bases = [[alpha[(r + 2 * c + variant) % len(alpha)] for c in range(n)] for r in range(N)]
            re = [0.123456789 * (k + 1) * (-1) ** k / (variant + 1) for k in range(D)]
            im = [0.987654321 / (k + 2) * (-1) ** (k // 2) * (variant + 1) for k in range(D)]
            uniq = sorted({"".join(b) for b in bases})
            ps = os.path.join(work, f"s{variant}.txt")
            pp = os.path.join(work, f"p{variant}.txt")
            pb = os.path.join(work, f"b{variant}.txt")
            pu = os.path.join(work, f"u{variant}.txt")
            open(ps, "w").write("".join(" ".join(str(x) for x in r) + "\n" for r in rows))
            open(pp, "w").write("".join(f"{fmt9(a)} {fmt9(b)}\n" for a, b in zip(re, im)))
            open(pb, "w").write("".join(" ".join(r) + "\n" for r in bases))
            open(pu, "w").write("".join(" ".join(u) + "\n" for u in uniq))
            acc.ev(1, nontrivial=N > 1)
            out = call(L.data.load_data, ps, pp, pb, pu)
            ok = len(out) == 4
            if ok:
                s, t, b, u = out
                f32 = lambda xs: np.array([np.float32(float(fmt9(x))) for x in xs], dtype=np.float64)  # noqa: E731
                ok = (isinstance(s, torch.Tensor) and s.dtype == torch.double and np.array_equal(s.numpy().reshape(-1), np.array(rows, dtype=float).reshape(-1))
                      and isinstance(t, torch.Tensor) and t.dtype == torch.double and tuple(t.shape) == (2, D)
                      and np.array_equal(t[0].numpy(), f32(re)) and np.array_equal(t[1].numpy(), f32(im))
                      and list(np.asarray(b).reshape(-1)) == [x for r in bases for x in r]
                      and list(np.asarray(u).reshape(-1)) == [x for w in uniq for x in w])
            if not ok:
                acc.viol("loaders:load_data-differs-from-file-contents", case, observed=[x.tolist() if hasattr(x, "tolist") else x for x in out],
                         expected=dict(samples=rows, re=re, im=im, bases=bases, unique=uniq))
            # subsets of the optional arguments
            o1 = call(L.data.load_data, ps)
            o2 = call(L.data.load_data, ps, tr_bases_path=pb)
            if not (len(o1) == 1 and len(o2) == 2 and np.array_equal(o1[0].numpy().reshape(-1), np.array(rows, dtype=float).reshape(-1))
                    and list(np.asarray(o2[1]).reshape(-1)) == [x for r in bases for x in r]):
                acc.viol("loaders:load_data-optional-arguments", case, observed=[len(o1), len(o2)], expected=[1, 2])
            # density-matrix loader
            Mr = [[0.111111111 * (i + 1) - 0.0123456789 * j * (variant + 1) for j in range(D)] for i in range(D)]
            Mi = [[0.222222222 * (i - j) / (variant + 1) for j in range(D)] for i in range(D)]
            pr = os.path.join(work, f"mr{variant}.txt")
            pi_ = os.path.join(work, f"mi{variant}.txt")
            open(pr, "w").write("".join(" ".join(fmt9(x) for x in r) + "\n" for r in Mr))
            open(pi_, "w").write("".join(" ".join(fmt9(x) for x in r) + "\n" for r in Mi))
            acc.ev(1, nontrivial=True)
            out = call(L.data.load_data_DM, ps, pr, pi_, pb, pu)
            ok = len(out) == 4
            if ok:
                s, m, b, u = out
                f32m = lambda M: np.array([[np.float32(float(fmt9(x))) for x in r] for r in M], dtype=np.float64)  # noqa: E731
                ok = (np.array_equal(s.numpy().reshape(-1), np.array(rows, dtype=float).reshape(-1)) and m.dtype == torch.double
                      and tuple(m.shape) == (2, D, D) and np.array_equal(m[0].numpy(), f32m(Mr)) and np.array_equal(m[1].numpy(), f32m(Mi))
                      and list(np.asarray(b).reshape(-1)) == [x for r in bases for x in r])
            if not ok:
                acc.viol("loaders:load_data_DM-differs-from-file-contents", case, observed=[x.tolist() if hasattr(x, "tolist") else x for x in out])
            for kw in (dict(tr_mtx_real_path=pr), dict(tr_mtx_imag_path=pi_)):
                acc.ev(1)
                try:
                    L.data.load_data_DM(ps, **kw)
                    acc.viol("loaders:load_data_DM-accepts-only-one-matrix-part", dict(case, given=list(kw)), expected="ValueError")
                except ValueError:
                    pass
            acc.outcome(sha([rows, bases, variant]))
    finally:
        shutil.rmtree(work, ignore_errors=True)


def run_refbasis(acc, N, n):
    L = lib()
    samples = torch.tensor([[float((r * n + c) % 2) + 10.0 * r for c in range(n)] for r in range(N)], dtype=torch.double)
    keep = samples.clone()
    for assign in itertools.product("XYZ", repeat=N * n):
        B = np.array(assign).reshape(N, n)
        B0 = B.copy()
        acc.ev(1, nontrivial=any(ch != "Z" for ch in assign))
        got = call(L.data.extract_refbasis_samples, samples, B)
        want = samples[[r for r in range(N) if all(ch == "Z" for ch in B[r])]]
        if tuple(got.shape) != tuple(want.shape) or not torch.equal(got, want):
            acc.viol("refbasis:rows-are-not-exactly-the-all-Z-rows-in-order", dict(layer="refbasis", N=N, n=n, bases=B.tolist()), observed=got, expected=want)
            break
        if not torch.equal(samples, keep) or not np.array_equal(B, B0):
            acc.viol("refbasis:inputs-modified", dict(layer="refbasis", N=N, n=n, bases=B.tolist()))
            break
        acc.outcome(sha([N, n, len(want)]))


def run_sequence(acc):
    """non-initial states: one state object asked for spaces / vectors of different sizes in every order"""
    import itertools as it
    for kind, arch in (("positive", [3, 2]), ("complex", [2, 2]), ("mixed", [2, 1, 1])):
        for order in it.permutations([1, 2, 3, 4]):
            st = build_state(kind, arch)
            for n in order:
                acc.ev(1)
                sp = call(st.generate_hilbert_space, n)
                v = call(st.subspace_vector, 2 ** n - 2, size=n)
                d = call(st.generate_hilbert_space)
                if not (np.array_equal(sp.numpy(), R.bits(n)) and np.array_equal(v.numpy(), R.bits(n)[2 ** n - 2]) and np.array_equal(d.numpy(), R.bits(arch[0]))):
                    acc.viol("indexing:result-depends-on-earlier-calls", dict(layer="sequence", kind=kind, order=list(order), n=n), observed=sp[:4], expected=R.bits(n)[:4])
                    return
                # what the caller does with a returned space / vector must not leak into later results:
                # overwrite them in place (directly, and through the documented sample(..., overwrite=True))
                if n == arch[0]:
                    call(st.sample, 1, initial_state=d, overwrite=True)
                sp.fill_(7.0)
                v.zero_()
                d.mul_(0).add_(1)
    acc.outcome("sequence")


def run_item(item):
    acc = Acc()
    layer = item["layer"]
    try:
        if layer == "sequence":
            run_sequence(acc)
        elif layer == "space":
            run_space(acc, item["n"])
        elif layer == "structured":
            run_structured(acc, item["lo"], item["hi"])
        elif layer == "limit":
            run_limit(acc, item["accept"])
        elif layer == "binding":
            run_binding(acc, item["n"])
        elif layer == "loaders":
            run_loaders(acc, item["N"], item["n"])
        else:
            run_refbasis(acc, item["N"], item["n"])
    except LibRaised as e:
        acc.viol(f"indexing:raised:{layer}:{e.kind}", item, observed=e.tb)
    acc.sample(item, cap=1)
    acc.states = acc.evaluations
    acc.transitions = acc.evaluations
    acc.traces = acc.evaluations
    return acc


def replay(case):
    item = {k: v for k, v in case.items() if k in ("layer", "n", "N", "lo", "hi", "accept")}
    if item.get("layer") == "structured":
        item = dict(layer="structured", lo=case.get("n", 11), hi=case.get("n", 20))
    if item.get("layer") == "limit":
        item["accept"] = case.get("size", 21) <= 20
    return run_item(item)
