"""C03 - training gradients are the exact gradients of the negative log-likelihood.

E3 lattice.  Oracle: torch.autograd gradient of NLL(theta) = -mean_s log p^{b_s}(s) + log Z built from
the brute-force psi / rho and dense Kronecker unitaries, compared per NAMED parameter after slicing
the library's flat vectors in parameters() order (the order training writes gradients in).
"""
import itertools
import numpy as np
import torch

from ..common import (lib, call, LibRaised, build_state, param_assignments, named_params, close, maxerr, sha, tbits,
                      EngineError)
from ..engine.acc import Acc
from ..ref import models as R
from ..ref import grads as G

ID = "C03"
ENGINE_NAME = "E3 input lattice"
RULE = ("one case = (state type, architecture, parameter assignment); per case EVERY (outcome, basis string) pair is fed as a "
        "single-sample batch (1-D and (1,n) forms), every ordered batch of <= 3 rows from a 4-row pool (covers all permutations) "
        "with every split into two sub-batches, and every multiset of <= 3 rows as a dataset for the exact gradient; "
        "non-trivial = basis string not all-Z or biases non-zero; distinct = distinct (type, arch, parameters)")
ASSUMPTIONS = ["mixed states: the library's 1/(p+1e-8) regulariser is allowed - accepted band |g-g_exact| <= 1e-9 + 1.000001*|g_exact-g_reg|",
               "1-deviations use {-7,0,7} for complex/mixed states (keeps rotated probabilities > 1e-4 of the norm), {-30,-7,0,7,30} for positive",
               "reference autograd gradient is validated against central finite differences in every run"]
TOL = 1e-9
NAME_MAP = {"weights": "W", "weights_W": "W", "weights_U": "U", "visible_bias": "b", "hidden_bias": "c", "aux_bias": "d"}

ARCHS_Q = {"positive": [[1, 1], [1, 2], [2, 1], [2, 2], [2, 3], [3, 2]],
           "complex": [[1, 1], [1, 2], [2, 1], [2, 2], [2, 3]],
           "mixed": [[1, 1, 1], [1, 2, 1], [2, 1, 1], [2, 1, 2], [2, 2, 1]]}
ARCHS_PAT = {"positive": [[3, 3]], "complex": [[3, 2]], "mixed": [[3, 1, 1]]}
ARCHS_T = {"positive": [[3, 3], [3, 4], [4, 2]], "complex": [[3, 2], [3, 3], [2, 4]], "mixed": [[2, 2, 2], [3, 1, 1], [3, 2, 1], [2, 3, 2]]}
ARCHS_T_PAT = {"positive": [[4, 4]], "complex": [[4, 2]], "mixed": [[4, 1, 1]]}


def bound(tier):
    return dict(dev_archs=ARCHS_Q if tier == "quick" else {k: ARCHS_Q[k] + ARCHS_T[k] for k in ARCHS_Q},
                pattern_only_archs=ARCHS_PAT if tier == "quick" else ARCHS_T_PAT,
                singles="all 2^n * 3^n (outcome, basis) pairs", batches="ordered selections of <=3 rows from a 4-row pool, all splits; every (ordered, n<=2) pair of distinct basis strings as a 2-row batch; all 3^n strings in one batch (several row orders)",
                datasets="multisets of <= 3 pool rows", deviation_values="{-7,0,7} (+-30 for positive)",
                fit_phase="complex+mixed, whole dataset as one batch: (N=3, 3 epochs, <=1 deviation), (N=2, 2 epochs, all tapes)" + ("" if tier == "quick" else ", (N=3, 3 epochs, <=2 deviations), (N=4, 2 epochs, <=1)"))


def plan(tier, seed):
    items = [dict(layer="oracle-selfcheck")]
    for kind, arch in (("positive", [2, 2]), ("complex", [2, 2]), ("mixed", [2, 1, 2]), ("mixed", [2, 2, 1])):
        items.append(dict(layer="stateful", kind=kind, arch=arch))
    for kind in ("positive", "complex", "mixed"):
        dev = ARCHS_Q[kind] + ([] if tier == "quick" else ARCHS_T[kind])
        pat = ARCHS_PAT[kind] if tier == "quick" else ARCHS_T_PAT[kind]
        for arch in dev:
            for q in range(3):
                for part in range(3):
                    items.append(dict(layer="grad", kind=kind, arch=arch, q=q, dev=1, part=part))
        for arch in pat:
            for q in range(2):
                items.append(dict(layer="grad", kind=kind, arch=arch, q=q, dev=0))
    for kind in ("complex", "mixed"):
        for N, ep, bd in ((3, 3, 1), (2, 2, None)) + (() if tier == "quick" else ((3, 3, 2), (4, 2, 1))):
            items.append(dict(layer="fit-phase", kind=kind, N=N, epochs=ep, bound=bd))
    return items


def split_named(st, flats):
    """slice the library's flat vectors in parameters() order -> per network dict refname -> array"""
    out = []
    for net, flat in zip(st.networks, flats):
        rbm = getattr(st, net)
        f = flat.detach().numpy() if isinstance(flat, torch.Tensor) else np.zeros(rbm.num_pars) + float(flat)
        d = {}
        i = 0
        for name, p in rbm.named_parameters():
            k = p.numel()
            d[NAME_MAP[name]] = f[i:i + k].reshape(tuple(p.shape)).copy()
            i += k
        if i != f.size:
            d["__length__"] = np.array([f.size, i])
        out.append(d)
    return out


def nsum(rows):
    out = [{k: np.zeros_like(v) for k, v in net.items()} for net in rows[0]]
    for r in rows:
        for i, net in enumerate(r):
            for k, v in net.items():
                out[i][k] = out[i][k] + v
    return out


def nscale(g, a):
    return [{k: v * a for k, v in net.items()} for net in g]


def ndiff(a, b):
    """max abs difference and scale over all named parameters; inf on structural mismatch"""
    worst = 0.0
    scale = 1.0
    for na, nb in zip(a, b):
        if set(na.keys()) != set(nb.keys()):
            return float("inf"), 1.0
        for k in nb:
            if na[k].shape != nb[k].shape or not np.all(np.isfinite(na[k])):
                return float("inf"), 1.0
            worst = max(worst, float(np.abs(na[k] - nb[k]).max()) if nb[k].size else 0.0)
            scale = max(scale, float(np.abs(nb[k]).max()) if nb[k].size else 0.0)
    if len(a) != len(b):
        return float("inf"), 1.0
    return worst, scale


def pool_rows(n, kind):
    D = 2 ** n
    outs = [0, D - 1, D // 2, 0]
    if kind == "positive":
        bs = ["Z" * n] * 4
    else:
        bs = ["Z" * n, ("XY" * n)[:n], ("YZX" * n)[:n], "Z" * n]
    return list(zip(outs, bs))


def check_case(acc, kind, arch, params, full=True, st=None, history=None):
    case = dict(kind=kind, arch=arch, params=params)
    if history is not None:
        case["history"] = history
    L = lib()
    st = build_state(kind, arch, params) if st is None else st
    n = arch[0]
    D = 2 ** n
    from ..common import space_of
    space = space_of(st, n)
    bases = G.all_bases(n, kind)
    named = named_params(st)
    leaves = G.make_leaves(named)
    Lx, logZ = G.loss_table(kind, n, leaves, bases)
    J = G.jacobian_table(Lx, leaves)
    gZ = G.grad_named(logZ, leaves)
    if kind == "mixed":
        leaves_r = G.make_leaves(named)
        Lr, _ = G.loss_table(kind, n, leaves_r, bases, eps=1e-8)
        Jr = G.jacobian_table(Lr, leaves_r)
    else:
        Jr = J
    bidx = {b: j for j, b in enumerate(bases)}
    acc.ev(1)

    def bad(sig, obs=None, exp=None, detail=None):
        acc.viol(sig, case, observed=obs, expected=exp, detail=detail, tol=TOL)

    def within(obs, exact, reg):
        e, sc = ndiff(obs, exact)
        band, _ = ndiff(exact, reg)
        acc.err((e - 1.000001 * band) / sc if np.isfinite(e) else 0)
        return e <= TOL * sc + 1.000001 * band

    def barr(bs):
        return np.array([list(b) for b in bs])

    try:
        # (a) every (outcome, basis) single-sample batch, 1-D and (1,n) call forms
        for s in range(D):
            for b in bases:
                j = bidx[b]
                if kind == "positive":
                    g2 = call(st.gradient, space[s:s + 1])
                    g1 = call(st.gradient, space[s])
                else:
                    g2 = call(st.gradient, space[s:s + 1], barr([b]))
                    g1 = call(st.gradient, space[s], b) if set(b) != {"Z"} or True else None
                o2 = split_named(st, g2)
                acc.count("single_gradients", 2)
                if not within(o2, J[s][j], Jr[s][j]):
                    bad("gradient:single-sample-vs-autograd", o2, J[s][j], detail=dict(outcome=s, basis=b, form="(1,n)"))
                    return
                o1 = split_named(st, g1)
                if not within(o1, J[s][j], Jr[s][j]):
                    bad("gradient:single-sample-1d-form", o1, J[s][j], detail=dict(outcome=s, basis=b, form="1-D"))
                    return
        # (b) batches: sum of singles, mean, permutation invariance, additivity under splitting
        pool = pool_rows(n, kind)
        sel = []
        for r in (1, 2, 3):
            sel += list(itertools.product(range(4), repeat=r))
        if not full:  # deviation cases: a fixed spread of mixed-basis batches (patterns get all of them)
            sel = [(1,), (0, 1), (1, 0), (0, 1, 2), (2, 1, 0), (1, 3, 2), (0, 0, 1), (3, 2, 1)]
        for rows in sel:
            smp = space[[pool[i][0] for i in rows]]
            bs = barr([pool[i][1] for i in rows])
            exp = nsum([J[pool[i][0]][bidx[pool[i][1]]] for i in rows])
            expr = nsum([Jr[pool[i][0]][bidx[pool[i][1]]] for i in rows])
            args = (smp,) if kind == "positive" else (smp, bs)
            g = split_named(st, call(st.gradient, *args))
            acc.count("batch_gradients")
            if not within(g, exp, expr):
                bad("gradient:batch-is-not-sum-of-per-sample-gradients", g, exp, detail=dict(rows=[pool[i] for i in rows]))
                return
            pp = split_named(st, call(st.positive_phase_gradients, *args))
            if not within(pp, nscale(exp, 1.0 / len(rows)), nscale(expr, 1.0 / len(rows))):
                bad("gradient:positive-phase-is-not-the-batch-mean", pp, nscale(exp, 1.0 / len(rows)), detail=dict(rows=[pool[i] for i in rows]))
                return
            for cut in range(1, len(rows)):
                a1 = (smp[:cut],) if kind == "positive" else (smp[:cut], bs[:cut])
                a2 = (smp[cut:],) if kind == "positive" else (smp[cut:], bs[cut:])
                ga = split_named(st, call(st.gradient, *a1))
                gb = split_named(st, call(st.gradient, *a2))
                e, sc = ndiff(nsum([ga, gb]), g)
                if not e <= 1e-11 * sc:
                    bad("gradient:not-additive-under-batch-split", nsum([ga, gb]), g, detail=dict(rows=[pool[i] for i in rows], cut=cut))
                    return
        # (b2) any multiset of basis strings in one batch: every pair of distinct basis strings as a
        # two-row batch (ordered for n<=2), and all 3^n strings together in two row orders
        if kind != "positive":
            pairs = []
            if full:
                for b1 in bases:
                    for b2 in bases:
                        if b1 != b2 and (n <= 2 or b1 < b2):
                            pairs.append([(D - 1, b1), (D // 2, b2)])
            allb = [((3 * i + 1) % D, b) for i, b in enumerate(bases)]
            pairs += [allb, allb[::-1]]
            if full and n <= 2:
                pairs += [allb[1::2] + allb[0::2], [(0, b) for b in bases] + allb]
            for rows_ in pairs:
                smp = space[[r[0] for r in rows_]]
                bs = barr([r[1] for r in rows_])
                exp = nsum([J[r[0]][bidx[r[1]]] for r in rows_])
                expr = nsum([Jr[r[0]][bidx[r[1]]] for r in rows_])
                g = split_named(st, call(st.gradient, smp, bs))
                acc.count("batch_gradients")
                if not within(g, exp, expr):
                    bad("gradient:batch-with-several-bases-is-not-sum-of-per-sample-gradients", g, exp, detail=dict(rows=rows_ if len(rows_) <= 4 else "all bases"))
                    return
        # (b3) large batches: many rows share one rotated basis (blocked / chunked evaluation paths)
        if full and n <= 2:
            for sizes_ in ((300,), (520, 190)) if kind != "positive" else ((300,),):
                rows_ = []
                for gi, cnt in enumerate(sizes_):
                    b = bases[(4 * gi + 1) % len(bases)]
                    rows_ += [(((i * D) // cnt + gi) % D, b) for i in range(cnt)]  # outcome blocks, not a periodic pattern
                smp = space[[r[0] for r in rows_]]
                cnts = {}
                for r in rows_:
                    cnts[r] = cnts.get(r, 0) + 1
                exp = nsum([nscale(J[r[0]][bidx[r[1]]], c_) for r, c_ in cnts.items()])
                expr = nsum([nscale(Jr[r[0]][bidx[r[1]]], c_) for r, c_ in cnts.items()])
                g = split_named(st, call(st.gradient, smp) if kind == "positive" else call(st.gradient, smp, barr([r[1] for r in rows_])))
                acc.count("batch_gradients")
                if not within(g, exp, expr):
                    bad("gradient:large-batch-is-not-sum-of-per-sample-gradients", g, exp, detail=dict(rows_per_basis=list(sizes_)))
                    return
        # (c) exact gradients on datasets = gradient of the full NLL (positive phase + exact negative phase)
        for r in (1, 2, 3):
            for rows in itertools.combinations_with_replacement(range(4), r):
                if not full and rows not in ((1,), (0, 1), (1, 2), (0, 1, 2), (1, 2, 3)):
                    continue
                smp = space[[pool[i][0] for i in rows]]
                bs = barr([pool[i][1] for i in rows])
                exp = nsum([nscale(nsum([J[pool[i][0]][bidx[pool[i][1]]] for i in rows]), 1.0 / r), gZ])
                expr = nsum([nscale(nsum([Jr[pool[i][0]][bidx[pool[i][1]]] for i in rows]), 1.0 / r), gZ])
                if kind == "positive":
                    g = split_named(st, call(st.compute_exact_gradients, smp, space))
                else:
                    g = split_named(st, call(st.compute_exact_gradients, smp, space, bs))
                acc.count("exact_gradients")
                if not within(g, exp, expr):
                    bad("gradient:exact-gradient-is-not-the-NLL-gradient", g, exp, detail=dict(rows=[pool[i] for i in rows]))
                    return
                if kind == "positive":
                    try:
                        g2 = split_named(st, call(st.compute_exact_grads, smp, space))
                        ok = within(g2, exp, expr)
                    except LibRaised as e:
                        bad(f"gradient:compute_exact_grads-not-callable:{e.kind}", e.tb, None)
                        return
                    if not ok:
                        bad("gradient:compute_exact_grads-disagrees", g2, exp)
                        return
    except LibRaised as e:
        bad(f"gradient:raised:{e.kind}", e.tb)
    acc.outcome(sha(np.round(Lx.detach().numpy(), 5)))


def selfcheck(acc):
    worst = 0.0
    for kind, arch in (("positive", [2, 2]), ("complex", [2, 2]), ("mixed", [2, 1, 2])):
        params = next(iter(param_assignments(kind, arch, npat=1, dev=0, q0=1)))[1]
        st = build_state(kind, arch, params)
        worst = max(worst, G.finite_difference_check(kind, arch[0], named_params(st), G.all_bases(arch[0], kind)))
    if worst > 1e-6:
        raise EngineError(f"reference autograd gradient disagrees with finite differences ({worst})")
    acc.count("oracle_fd_selfcheck_ok")
    acc.ev(1, nontrivial=False)
    acc.outcome("selfcheck")


def run_stateful(acc, kind, arch):
    """non-initial states: gradients of a LIVE model after in-place parameter updates"""
    from ..common import update_params, UPDATE_STYLES
    from .c05 import stateful_sequence
    seq = stateful_sequence(kind, arch)
    st = build_state(kind, arch, seq[0])
    check_case(acc, kind, arch, seq[0], full=False, st=st, history=[])
    hist = []
    for i, style in enumerate(UPDATE_STYLES):
        hist = hist + [dict(update=style, to_pattern=i + 1)]
        update_params(st, seq[i + 1], style)
        check_case(acc, kind, arch, seq[i + 1], full=False, st=st, history=hist)


def run_fit_phase(acc, kind, N, epochs, bound, only=None):
    """'...in the same parameter order in which training writes gradients into the model': during a real multi-epoch
    fit() with the whole dataset as one batch, the gradient found on every PHASE-network parameter after each
    optimizer step (no sampling enters it) is the derivative of the dataset's NLL at the parameters the model had
    when the batch started - in every epoch, under every decided shuffle / negative-batch draw (deviation-bounded)."""
    from . import _fit as F
    from ..engine import tape as T
    from ..engine.env import Owned
    L = lib()
    rows, bstr = F.dataset(2, N, "distinct")
    data = torch.tensor(rows, dtype=torch.double)
    bases_arr = np.array([list(b) for b in bstr])
    allb = G.all_bases(2, kind)
    bidx = {b: j for j, b in enumerate(allb)}
    sidx = [int("".join(str(int(x)) for x in r), 2) for r in rows]
    flagged = set()

    def body(tape):
        st, arch, params = F.fresh_state(kind, 2)
        from .c06 import make_rec, named_from_optimizer
        log = []
        dec = F.FitDecider(tape)
        dec.small = True
        try:
            with Owned(dec):
                # a recording optimizer sees parameters and gradients at the moment of the step (independent of
                # where the training loop clears gradients)
                call(st.fit, data, epochs=epochs, pos_batch_size=N, k=1, lr=0.3, input_bases=bases_arr, optimizer=make_rec(log))
        except LibRaised as e:
            return [(f"gradient:fit-raised:{e.kind}", dict(error=str(e)))], 0
        snaps, grads = [], []
        for entry in log:
            b_ = named_from_optimizer(st, entry, "before")
            g_ = named_from_optimizer(st, entry, "grads")
            if b_ is None or g_ is None:
                return [("gradient:optimizer-does-not-hold-the-networks-parameters", None)], len(log)
            # rebuild the by-name parameter read-out in named_params() form (numpy arrays keyed W/U/b/c/d)
            snaps.append(b_)
            grads.append(g_[1])
        out = []
        for step, (named, g) in enumerate(zip(snaps, grads)):
            exp = []
            for eps in ((0.0, 1e-8) if kind == "mixed" else (0.0,)):
                leaves = G.make_leaves(named)
                Lx, _ = G.loss_table(kind, 2, leaves, allb, eps=eps)
                loss = sum(Lx[sidx[i], bidx[bstr[i]]] for i in range(N)) / N
                exp.append(G.grad_named(loss, leaves))
            obs = [{k: np.zeros_like(v) for k, v in exp[0][0].items()}, {k: (v if v is not None else np.full_like(exp[0][1][k], np.nan)) for k, v in g.items()}]
            want = [obs[0], exp[0][1]]
            e_, sc = ndiff(obs, want)
            band = ndiff(want, [obs[0], exp[-1][1]])[0]
            acc.err(max(0.0, (e_ - 1.000001 * band) / sc) if np.isfinite(e_) else 0)
            if not (e_ <= TOL * sc + 1.000001 * band):
                out.append(("gradient:written-into-phase-network-during-fit-differs-from-dataset-NLL-derivative", dict(step=step, epoch=step + 1, observed={k: v.tolist() for k, v in obs[1].items()}, expected={k: v.tolist() for k, v in want[1].items()})))
                break
        if len(snaps) != epochs or len(grads) != epochs:
            out.append(("gradient:fit-did-not-run-one-full-batch-per-epoch", dict(batches=len(snaps), epochs=epochs)))
        return out, len(snaps)

    stats = T.Stats()
    if only is not None:
        tp = T.Tape(only, lenient=True)
        res, n_ = body(tp)
        acc.ev(1, nontrivial=True)
        for sig, det in res:
            acc.viol(sig, dict(layer="fit-phase", kind=kind, N=N, epochs=epochs, tape=list(tp.choices)), detail=det, tol=TOL)
        return
    for tp, (res, n_) in T.explore(body, bound=bound, stats=stats):
        acc.ev(1, nontrivial=True)
        acc.transitions += n_
        acc.count("batch_gradients", n_)
        if not res:
            acc.traces += 1
        for sig, det in res:
            if sig not in flagged:
                flagged.add(sig)
                acc.viol(sig, dict(layer="fit-phase", kind=kind, N=N, epochs=epochs, tape=list(tp.choices)), detail=det, tol=TOL)
            else:
                acc.n_violations += 1
        acc.outcome(sha([kind, N, tp.choices]))
    acc.sample(dict(layer="fit-phase", kind=kind, N=N, epochs=epochs, deviation_bound=bound, executions=stats.executions, choice_points=stats.choice_points), cap=1)


def run_item(item):
    acc = Acc()
    if item["layer"] == "fit-phase":
        run_fit_phase(acc, item["kind"], item["N"], item["epochs"], item["bound"])
        acc.states = acc.evaluations
        return acc
    if item["layer"] == "stateful":
        run_stateful(acc, item["kind"], item["arch"])
        acc.sample(dict(layer="stateful", kind=item["kind"], arch=item["arch"]), cap=1)
        c = acc.counters
        acc.states = acc.evaluations
        acc.transitions = c.get("single_gradients", 0) + c.get("batch_gradients", 0) * 2 + c.get("exact_gradients", 0)
        acc.traces = acc.transitions
        acc.evaluations = max(acc.evaluations, acc.transitions)
        return acc
    if item["layer"] == "oracle-selfcheck":
        selfcheck(acc)
        return acc
    kind, arch = item["kind"], item["arch"]
    ext = [-30.0, -7.0, 0.0, 7.0, 30.0] if kind == "positive" else [-7.0, 0.0, 7.0]
    first = True
    for i, (tag, params) in enumerate(param_assignments(kind, arch, npat=1, dev=item["dev"], ext=ext, q0=item["q"])):
        if "part" in item and i % 3 != item["part"]:
            continue
        check_case(acc, kind, arch, params, full=(tag[0] == "pat"))
        if first:
            acc.sample(dict(kind=kind, arch=arch, tag=list(tag), params=params), cap=1)
            first = False
    c = acc.counters
    acc.states = acc.evaluations
    acc.transitions = c.get("single_gradients", 0) + c.get("batch_gradients", 0) * 2 + c.get("exact_gradients", 0)
    acc.traces = acc.transitions
    acc.evaluations = max(acc.evaluations, acc.transitions)
    return acc


def replay(case):
    acc = Acc()
    if case.get("layer") == "fit-phase":
        run_fit_phase(acc, case["kind"], case["N"], case["epochs"], None, only=case["tape"])
        return acc
    if case.get("history"):
        run_stateful(acc, case["kind"], case["arch"])
        return acc
    check_case(acc, case["kind"], case["arch"], case["params"], full=True)
    return acc
