"""C12 - training follows the documented event protocol and honours stop requests.

E1: the real fit with recorder callbacks and a stop injector whose every event is a choice point
(request / do not request) - so a stop is placed at every event of the run and at every callback
position.  Oracle 1: the reference protocol generator.  Oracle 2 (E4): an independently written TLA+
spec checked by TLC; ALL its complete behaviours are replayed on the real fit and every trace the
Python exploration produces must be one of the model's (two-way trace equivalence).
"""
import contextlib
import io
import math
import numpy as np
import torch

from ..common import lib, call, LibRaised, sha, EngineError, params_hash
from ..engine.acc import Acc
from ..engine import tape as T
from ..engine import tlc as TLC
from ..engine.env import Owned, RngGuard
from ..ref import protocol as P
from . import _fit as F

ID = "C12"
ENGINE_NAME = "E1 choice-tape explorer + E4 TLC bridge"
RULE = ("one evaluation = one complete fit() with recorders and a stop injector under one tape (a stop request at one event and "
        "callback position, or none, or pre-set); non-trivial = the run contains at least one batch and a stop is injected; "
        "distinct = distinct (configuration, tape); plus every complete behaviour of the TLA+ model replayed on the real fit")
ASSUMPTIONS = ["TLC's state dump is complete for the finite model (history variable makes every behaviour a distinct terminal state)",
               "Timer callback output is discarded; time.time is not owned (it never influences events)"]
COUNTS = ("states = choice-tree nodes of the Python exploration + TLC distinct states; transitions = events delivered and compared + TLC "
          "transitions; traces_validated_against_impl = complete event traces compared with the reference generator + TLC behaviours replayed on fit")
INVARIANTS = ["TypeOK", "Sticky", "NoBatchAfterStopSeen", "AtMostOneBatchAfterEarlyStop", "TrainEndOnce", "EpochEndMatchesStart", "BatchesPaired", "PreStopEmitsNothing"]
EVENTS = ["train_start", "epoch_start", "batch_start", "batch_end", "epoch_end", "train_end"]


def tlc_sets(tier):
    if tier == "quick":
        return [(1, 2, 2), (2, 1, 1), (0, 1, 3), (1, 3, 1), (1, 1, 2)]
    return [(1, 2, 2), (2, 1, 1), (0, 1, 3), (1, 3, 1), (0, 2, 2), (1, 1, 4), (3, 3, 2), (0, 0, 1), (1, 3, 2), (2, 3, 3), (0, 3, 1), (1, 2, 3), (0, 3, 2), (1, 4, 1), (2, 4, 2), (0, 2, 4), (1, 1, 5), (4, 3, 1), (0, 4, 2), (2, 4, 3), (3, 4, 2), (1, 4, 3)]


def bound(tier):
    q = tier == "quick"
    return dict(starting_epoch=[0, 2 if q else 4], epochs=[0, 2 if q else 4], N=[1, 3], pos_batch_size=[1, 2, 4], neg_batch_size="default; {1,2,3} != pos for N=3",
                callback_lists=["[R]", "[R,S]", "[S,R]", "[R1,S,R2]", "[Lambda-recorder,S]", "[derived recorder, derived injector]"], timer=[False, True],
                options=["scheduler=StepLR", "optimizer=Adam + optimizer_args", "k=3", "progbar + ignored keyword", "callbacks as a tuple"], second_fit="after stop / reset on the same objects (RS list and option variants)",
                stop="none; pre-set; one request at every event of the run (every callback position)", kinds="positive full grid; complex/mixed N<=2",
                tlc_constant_sets=[list(c) for c in tlc_sets(tier)], tlc_invariants=INVARIANTS)


def plan(tier, seed):
    cfgs = []
    emax = 2 if tier == "quick" else 4
    for kind in ("positive", "complex", "mixed"):
        for e0 in range(0, emax + 1):
            for E in range(0, emax + 1):
                for N in (1, 2, 3):
                    for pb in (1, 2, 4):
                        if kind != "positive" and (N > 2 or pb == 4 or (tier == "quick" and (e0 == 0 or E == 0))):
                            continue
                        for cbl in ("R", "RS", "SR", "RSR", "LS", "DT"):
                            for timer in (False, True):
                                if timer and cbl in ("R", "LS", "DT") and tier == "quick":
                                    continue
                                cfgs.append(dict(kind=kind, e0=e0, E=E, N=N, pb=pb, cbl=cbl, timer=timer))
                                if cbl == "RS" and not timer and N == 2 and kind == "positive":
                                    cfgs.append(dict(kind=kind, e0=e0, E=E, N=N, pb=pb, cbl=cbl, timer=timer, extras=True))
                                if cbl == "SR" and not timer and N == 2 and pb == 2:
                                    # the callbacks given in another iterable form than a list
                                    for cbform in ("tuple",):
                                        cfgs.append(dict(kind=kind, e0=e0, E=E, N=N, pb=pb, cbl=cbl, timer=timer, cbform=cbform))
                                if cbl == "SR" and not timer and N == 2 and pb == 1:
                                    for opt in ("sched", "adam", "k3"):
                                        cfgs.append(dict(kind=kind, e0=e0, E=E, N=N, pb=pb, cbl=cbl, timer=timer, opt=opt))
                                if cbl == "RS" and not timer and N == 3 and pb in (1, 2):
                                    # the number of batches is ceil(N / pos_batch_size) whatever the negative batch size
                                    for negb in (1, 2, 3):
                                        if negb != pb:
                                            cfgs.append(dict(kind=kind, e0=e0, E=E, N=N, pb=pb, cbl=cbl, timer=timer, negb=negb))
    items = [dict(layer="tlc", E0=e0, E=E, NB=nb) for (e0, E, nb) in tlc_sets(tier)]
    items += [dict(layer="py", configs=cfgs[j:j + 10]) for j in range(0, len(cfgs), 10)]
    return items


@contextlib.contextmanager
def _quiet_fd2(active):
    """tqdm writes its progress bar to the process's stderr; silence file descriptor 2 while it does"""
    if not active:
        yield
        return
    import os as _os
    import sys as _sys
    _sys.stderr.flush()
    saved = _os.dup(2)
    devnull = _os.open(_os.devnull, _os.O_WRONLY)
    try:
        _os.dup2(devnull, 2)
        yield
    finally:
        _os.dup2(saved, 2)
        _os.close(saved)
        _os.close(devnull)


def make_callbacks(cfg, tape, glog, state):
    """recorders R (cid = position), injector S; returns list and injector position"""
    L = lib()
    CB = L.callbacks.CallbackBase

    class Rec(CB):
        def __init__(self, cid, inject=False):
            self.cid = cid
            self.inject = inject

        def _ev(self, nn, *e):
            if self.inject and not state["injected"] and tape is not None:
                if tape.choose(2, "stop@" + e[0]):
                    nn.stop_training = True
                    state["injected"] = True
                    state["at"] = state["count"][self.cid]
            state["count"][self.cid] = state["count"].get(self.cid, 0) + 1
            glog.append((self.cid, tuple(e), bool(nn.stop_training), params_hash(nn)))

        def on_train_start(self, nn):
            self._ev(nn, "train_start")

        def on_train_end(self, nn):
            self._ev(nn, "train_end")

        def on_epoch_start(self, nn, ep):
            self._ev(nn, "epoch_start", ep)

        def on_epoch_end(self, nn, ep):
            self._ev(nn, "epoch_end", ep)

        def on_batch_start(self, nn, ep, b):
            self._ev(nn, "batch_start", ep, b)

        def on_batch_end(self, nn, ep, b):
            self._ev(nn, "batch_end", ep, b)

    class Derived(Rec):
        """second-level subclass: every hook is INHERITED from an intermediate callback class (what a user's
        `class Stopper(Recorder)` or the library's VarianceBasedEarlyStopping(EarlyStopping) looks like)"""

    class DerivedOne(Rec):
        """overrides one hook, inherits the other five"""
        def on_epoch_end(self, nn, ep):
            super().on_epoch_end(nn, ep)

    def lam(cid):
        r = Rec(cid)
        return L.callbacks.LambdaCallback(
            on_train_start=lambda nn: r._ev(nn, "train_start"), on_train_end=lambda nn: r._ev(nn, "train_end"),
            on_epoch_start=lambda nn, ep: r._ev(nn, "epoch_start", ep), on_epoch_end=lambda nn, ep: r._ev(nn, "epoch_end", ep),
            on_batch_start=lambda nn, ep, b: r._ev(nn, "batch_start", ep, b), on_batch_end=lambda nn, ep, b: r._ev(nn, "batch_end", ep, b))

    out = []
    pos = None
    for i, ch in enumerate(cfg["cbl"]):
        if ch == "S":
            out.append(Rec(i, inject=True))
            pos = i
        elif ch == "L":
            out.append(lam(i))
        elif ch == "D":
            out.append(Derived(i))
        elif ch == "T":
            out.append(DerivedOne(i, inject=True))
            pos = i
        else:
            out.append(Rec(i))
    for i in range(len(out)):
        state["count"][i] = 0
    return out, pos


def run_fit(cfg, tape, pre=False):
    kind, e0, E, N, pb = cfg["kind"], cfg["e0"], cfg["E"], cfg["N"], cfg["pb"]
    n = cfg.get("n", 2)
    st, arch, params = F.fresh_state(kind, n) if n == 2 else F.fresh_state(kind, 1, arch=[1, 1])
    rows, bstr = F.dataset(n, N, "distinct")
    data = torch.tensor(rows, dtype=torch.double)
    with_bases = kind != "positive"
    kw = dict(input_bases=np.array([list(b) for b in bstr])) if with_bases else {}
    glog = []
    state = dict(injected=False, at=None, count={})
    cbs, pos = make_callbacks(cfg, tape, glog, state)
    if pre:
        st.stop_training = True
    h0 = params_hash(st)
    torch.manual_seed(1234)
    env = Owned(None, mode="observe")
    out = []
    try:
        with env, contextlib.redirect_stdout(io.StringIO()), _quiet_fd2(cfg.get("extras")):
            if cfg.get("negb"):
                kw["neg_batch_size"] = cfg["negb"]
            if cfg.get("extras"):
                kw.update(progbar=True, some_ignored_keyword=1)  # a progress bar and an ignored keyword change nothing
            if cfg.get("opt"):
                # documented optimiser / scheduler options: the protocol is the same whatever drives the update
                kw.update(dict(sched=dict(scheduler=torch.optim.lr_scheduler.StepLR, scheduler_args=dict(step_size=1, gamma=0.5)),
                               adam=dict(optimizer=torch.optim.Adam, optimizer_args=dict(betas=(0.8, 0.9)), lr=0.01),
                               k3=dict(k=3, lr=0.02))[cfg["opt"]])
            # (the documented type is a list; a tuple is the only other form used here - one-shot iterables work with the
            # present code by accident of `list(callbacks)` and are not demanded)
            cbarg = {None: cbs, "tuple": tuple(cbs)}[cfg.get("cbform")]
            call(st.fit, data, epochs=E, starting_epoch=e0, pos_batch_size=pb, time=cfg.get("timer", False), callbacks=cbarg, **kw)
    except LibRaised as e:
        return [(f"protocol:fit-raised:{e.kind}", dict(tb=e.tb))], None, 0
    nb = math.ceil(N / pb)
    m = len(cbs)
    want = P.run(e0, E, nb, state["at"] if state["injected"] else None, pre)
    for i in range(m):
        mine = [(e, s) for (c, e, s, h) in glog if c == i]
        exp = []
        for k_, (e, s) in enumerate(want):
            if state["injected"] and k_ == state["at"]:
                s = (i >= pos)
            exp.append((e, s))
        if mine != exp:
            j = next((x for x in range(min(len(mine), len(exp))) if mine[x] != exp[x]), min(len(mine), len(exp)))
            got_e = mine[j] if j < len(mine) else None
            want_e = exp[j] if j < len(exp) else None
            kindsig = "missing-or-extra-event" if (got_e is None or want_e is None or got_e[0] != want_e[0]) else "stop-flag-seen"
            after = exp[j - 1][0][0] if j > 0 else "nothing"
            out.append((f"protocol:{kindsig}:after-{after}", dict(callback=i, index=j, observed=mine[j:j + 3], expected=exp[j:j + 3])))
            break
    if not out:
        if not all(glog[j][0] == j % m for j in range(len(glog))):
            out.append(("protocol:callbacks-not-dispatched-in-list-order", dict(order=[g[0] for g in glog[:2 * m]])))
        prev = h0
        for j in range(len(glog)):
            if glog[j][3] != (glog[j - 1][3] if j else h0):
                ok = j > 0 and glog[j][1][0] == "batch_end" and glog[j - 1][1][0] == "batch_start" and glog[j][1][1:] == glog[j - 1][1][1:]
                if not ok:
                    out.append(("protocol:parameters-changed-outside-a-batch", dict(at=glog[j][1], before=glog[j - 1][1] if j else None)))
                    break
        if st.stop_training != (pre or state["injected"]):
            out.append(("protocol:stop-request-did-not-persist", dict(flag=st.stop_training)))
        if pre and (glog or params_hash(st) != h0 or env.calls):
            out.append(("protocol:pre-stopped-run-did-something", dict(events=len(glog), random_calls=env.calls[:3])))
    if not out and (cfg["cbl"] == "RS" or cfg.get("opt")) and not cfg.get("timer"):
        # non-initial state: call fit again on the same objects.  A still-set request must make it a
        # no-op; after the user resets the flag the full protocol must run again.
        n0 = len(glog)
        h1 = params_hash(st)
        was = st.stop_training
        state["injected"] = True  # no further injection
        try:
            with contextlib.redirect_stdout(io.StringIO()), _quiet_fd2(cfg.get("extras")):
                call(st.fit, data, epochs=E, starting_epoch=e0, pos_batch_size=pb, callbacks=cbs, **kw)
                if was and (len(glog) != n0 or params_hash(st) != h1 or not st.stop_training):
                    out.append(("protocol:second-fit-after-stop-request-did-something", dict(new_events=len(glog) - n0)))
                if was:
                    st.stop_training = False
                    n0 = len(glog)
                    call(st.fit, data, epochs=E, starting_epoch=e0, pos_batch_size=pb, callbacks=cbs, **kw)
                again = [(e, s_) for (c, e, s_, h) in glog[n0:] if c == 0]
                if again != P.run(e0, E, nb, None, False):
                    out.append(("protocol:fit-after-reset-does-not-follow-the-protocol", dict(observed=again[:4], expected=P.run(e0, E, nb, None, False)[:4])))
                # in the continued run, too, parameters change only between a batch-start and its batch-end - in
                # particular not between the call and train-start (the model now carries gradients of the first run)
                prev_h, prev_e = h1, None
                for (c_, e_, s_, h_) in glog[n0:]:
                    if h_ != prev_h and not (e_[0] == "batch_end" and prev_e is not None and prev_e[0] == "batch_start" and e_[1:] == prev_e[1:]):
                        out.append(("protocol:parameters-changed-outside-a-batch:second-fit", dict(at=e_, before=prev_e)))
                        break
                    prev_h, prev_e = h_, e_
                if not glog[n0:] and params_hash(st) != h1:
                    out.append(("protocol:parameters-changed-outside-a-batch:second-fit", dict(at="empty run", before=None)))
        except LibRaised as e:
            out.append((f"protocol:second-fit-raised:{e.kind}", dict(tb=e.tb)))
    trace_after = None
    if cfg["cbl"].endswith("R") and m >= 2 and pos is not None and pos < m - 1 or cfg["cbl"] == "R":
        last = m - 1
        trace_after = tuple((e, s) for (c, e, s, h) in glog if c == last)
    return out, trace_after, len(glog)


def explore(acc, cfg, traces=None):
    sigs = set()
    for pre in (False, True):
        stats = T.Stats()
        if pre and cfg["cbl"] not in ("RS", "R", "SR"):
            continue
        with RngGuard("observe"):
            for tp, (viols, tr, nev) in T.explore(lambda t: run_fit(cfg, t, pre), bound=1, stats=stats):
                nb = math.ceil(cfg["N"] / cfg["pb"])
                acc.ev(1, nontrivial=bool(tp.deviations) and cfg["E"] >= cfg["e0"])
                acc.count("events", nev)
                acc.outcome(sha([cfg["e0"], cfg["E"], nb, tp.choices, pre]))
                if traces is not None and tr is not None:
                    traces.add(tr)
                for sig, detail in viols:
                    if sig not in sigs:
                        sigs.add(sig)
                        acc.viol(sig, dict(cfg, tape=tp.choices, pre=pre), detail=detail)
        acc.states += stats.nodes
        acc.traces += stats.executions
        acc.choice_points += stats.choice_points


def run_tlc_item(acc, item):
    e0, E, nb = item["E0"], item["E"], item["NB"]
    res = TLC.run_tlc("FitProtocol", dict(E0=e0, E=E, NB=nb), INVARIANTS)
    term = [s for s in res["states"] if s.get("pc") == "done"]
    if not term:
        raise EngineError("TLC dump has no terminal states")
    model = set()
    for s in term:
        model.add(tuple((tuple(e), bool(sa)) for e, sa in s["trace"]))
    acc.count("tlc_distinct_states", res["distinct"])
    acc.count("tlc_generated_states", res["generated"])
    acc.count("tlc_complete_behaviours", len(model))
    acc.states += res["distinct"]
    acc.transitions += res["generated"]
    # model -> code: every complete behaviour replayed on the real fit
    for tr in sorted(model, key=lambda t: (len(t), str(t))):
        pre = len(tr) == 0
        inj = next((i for i, (e, sa) in enumerate(tr) if sa), None)
        cfg = dict(kind="positive", e0=e0, E=E, N=nb, pb=1, cbl="SR", timer=False)
        choices = []
        if not pre:
            # the injector's choice points are its events up to and including the injection
            choices = ([0] * inj + [1]) if inj is not None else []
        try:
            viols, got, nev = run_fit(cfg, T.Tape(choices), pre)
        except T.Divergence as d:
            acc.viol("protocol:tlc-behaviour-not-reproducible-on-fit", dict(constants=[e0, E, nb], trace=tr), detail=str(d))
            continue
        acc.ev(1, nontrivial=inj is not None)
        acc.traces += 1
        acc.count("tlc_behaviours_replayed")
        if got != tr:
            j = next((x for x in range(min(len(got or ()), len(tr))) if got[x] != tr[x]), min(len(got or ()), len(tr)))
            acc.viol("protocol:fit-diverges-from-tlc-behaviour", dict(constants=[e0, E, nb], trace=tr, tape=choices),
                     observed=(got or ())[j:j + 3], expected=tr[j:j + 3], detail=dict(first_divergence=j))
        for sig, detail in viols:
            acc.viol(sig, dict(cfg, tape=choices, pre=pre, via="tlc"), detail=detail)
    # code -> model: every trace the Python exploration produces must be a model behaviour
    traces = set()
    explore(acc, dict(kind="positive", e0=e0, E=E, N=nb, pb=1, cbl="SR", timer=False), traces)
    for tr in traces:
        if tr not in model:
            acc.viol("protocol:implementation-trace-not-in-tlc-model", dict(constants=[e0, E, nb], trace=tr))
    if traces != model and not acc.violations:
        acc.viol("protocol:trace-sets-differ", dict(constants=[e0, E, nb]), observed=len(traces), expected=len(model))
    acc.sample(dict(tlc_constants=dict(E0=e0, E=E, NB=nb), distinct_states=res["distinct"], complete_behaviours=len(model),
                    example_behaviour=[list(map(str, x)) for x in sorted(model, key=len)[-1][:6]]), cap=1)


def run_item(item):
    acc = Acc()
    if item["layer"] == "tlc":
        run_tlc_item(acc, item)
    else:
        for cfg in item["configs"]:
            explore(acc, cfg)
        acc.sample(dict(item["configs"][0], stop="at every event / position"), cap=1)
    acc.transitions += acc.counters.get("events", 0)
    return acc


def replay(case):
    acc = Acc()
    if "tape" not in case:
        return run_item(dict(layer="tlc", E0=case["constants"][0], E=case["constants"][1], NB=case["constants"][2]))
    if "constants" in case:
        e0, E, nb = case["constants"]
        cfg = dict(kind="positive", e0=e0, E=E, N=nb, pb=1, cbl="SR", timer=False)
        pre = len(case.get("trace", [1])) == 0
    else:
        cfg = {k: case[k] for k in ("kind", "e0", "E", "N", "pb", "cbl", "timer", "negb", "extras", "opt", "cbform") if k in case}
        pre = case.get("pre", False)
    viols, tr, nev = run_fit(cfg, T.Tape(case["tape"], lenient=True), pre)
    acc.ev(1)
    for sig, detail in viols:
        acc.viol(sig, case, detail=detail)
    if "trace" in case and tr is not None:
        want = tuple((tuple(e), bool(s_)) for e, s_ in case["trace"])
        if tr != want:
            acc.viol("protocol:fit-diverges-from-tlc-behaviour", case, observed=tr, expected=want)
    return acc
