"""C15 - the complex-tensor kernel agrees with complex arithmetic.

E3 lattice: every public function of qucumber.utils.cplx x shape alphabet x Gaussian-integer value
grid (exact arithmetic -> bit-for-bit comparison) + non-integer fills, against numpy complex128.
"""
import itertools
import numpy as np
import torch

from ..common import lib, call, LibRaised, close, sha
from ..engine.acc import Acc

ID = "C15"
ENGINE_NAME = "E3 input lattice"
RULE = ("one evaluation = one call of a cplx function on one (shape combination, value fill, out= form), decoded and compared with "
        "numpy complex128; scalar x scalar operations run over EVERY ordered pair of the 25-point Gaussian-integer grid "
        "{a+bi: a,b in {-2,-1,0,1,3}} (bit-for-bit); non-trivial = both operands have non-zero real and imaginary parts somewhere; "
        "distinct = distinct (function, shapes, fill, form)")
ASSUMPTIONS = ["'aliasing output buffer' is read as the documented contract: passing an operand object itself as out=",
               "sigmoid claimed for |Re z| <= 700 (exp overflows beyond in any float64 arithmetic)"]
G = [a + 1j * b for a in (-2, -1, 0, 1, 3) for b in (-2, -1, 0, 1, 3)]
GROUPS = ["scalar-pairs", "vectors", "matrices", "higher-rank", "einsum", "errors", "sigmoid-and-constants", "noninteger", "broadcast"]


def bound(tier):
    return dict(scalar_grid="all 625 ordered pairs of the 25-point Gaussian-integer grid",
                vector_lengths=[1, 2, 3] if tier == "quick" else [1, 2, 3, 4], matrix_shapes="r x c, r,c in {1,2,3}" + ("" if tier == "quick" else " and 4"),
                fills=3 if tier == "quick" else 6, einsum_equations=len(EQS), out_forms=["none", "fresh buffer", "first operand", "second operand"])


import collections

_RECENT = collections.deque(maxlen=10)  # the operands created most recently, with a pristine copy each


def enc(z):
    z = np.asarray(z, dtype=complex)
    t = torch.tensor(np.stack([z.real, z.imag]), dtype=torch.double)
    _RECENT.append((t, t.clone()))
    return t


def operands_intact():
    return all(torch.equal(a, b) for a, b in _RECENT)


def fill(shape, off, nonint=False):
    n = int(np.prod(shape)) if shape else 1
    a = np.array([G[(off + 7 * i) % 25] for i in range(n)], dtype=complex).reshape(shape)
    if nonint:
        a = a * (0.37 + 0.11j) + (0.25 - 0.5j)
    return a


EQS = [("ib,ibg->bg", (2, 3), (2, 3, 4)), ("b,bg->g", (3,), (3, 4)), ("ijb,ijbg->bg", (2, 2, 3), (2, 2, 3, 2)),
       ("ij,jk->ik", (2, 3), (3, 2)), ("ii,i->i", (3, 3), (3,)), ("bij,bjk->bik", (2, 2, 3), (2, 3, 2)), ("i,j->ij", (2,), (3,)),
       ("ab,cd->acbd", (2, 2), (3, 2)), ("...j,...k->...jk", (2, 3), (2, 2))]


def plan(tier, seed):
    return [dict(group=g, tier=tier) for g in GROUPS]


class Ctx:
    def __init__(self, acc, group, only=None):
        self.acc = acc
        self.group = group
        self.only = only
        self.L = lib()

    def chk(self, fn, cid, thunk, want, exact=True, nontrivial=True):
        if self.only is not None and cid != self.only:
            return
        self.acc.ev(1, nontrivial)
        case = dict(group=self.group, id=cid)
        try:
            got = call(thunk)
        except LibRaised as e:
            self.acc.viol(f"cplx:{fn}:raised:{e.kind}", case, observed=e.tb, expected=want)
            return
        if "out" not in cid and not operands_intact():
            self.acc.viol(f"cplx:{fn}:operand-modified", case, expected="operands unchanged")
            _RECENT.clear()
            return
        try:
            want = np.asarray(want)
            if isinstance(got, torch.Tensor) and np.iscomplexobj(want):
                g = got[0].detach().numpy() + 1j * got[1].detach().numpy() if got.dim() >= 1 and got.shape[0] == 2 else None
            else:
                g = np.asarray(got.detach().numpy() if isinstance(got, torch.Tensor) else got)
            if g is None or g.shape != want.shape:
                ok = False
            elif exact:
                ok = bool(np.array_equal(g, want))
            else:
                ok = close(g, want, 1e-12, at=1e-12)
        except Exception:  # noqa: BLE001
            ok, g = False, None
        if not ok:
            self.acc.viol(f"cplx:{fn}:wrong-value", case, observed=g if g is not None else repr(got), expected=want)
        self.acc.outcome(sha([fn, np.round(np.asarray(want, dtype=complex), 6)]))

    def must_raise(self, fn, cid, thunk):
        if self.only is not None and cid != self.only:
            return
        self.acc.ev(1)
        try:
            r = thunk()
        except Exception:  # noqa: BLE001
            self.acc.outcome("rejected:" + fn)
            return
        self.acc.viol(f"cplx:{fn}:not-rejected", dict(group=self.group, id=cid), observed=repr(r), expected="an error")


def run_group(acc, group, tier, only=None):
    c = Ctx(acc, group, only)
    X = c.L.cplx
    lens = [1, 2, 3] if tier == "quick" else [1, 2, 3, 4]
    offs = (0, 3, 11) if tier == "quick" else (0, 3, 11, 4, 17, 22)
    shapes1 = [(k,) for k in lens]
    shapes2 = [(r, cc) for r in lens for cc in lens]
    if group == "scalar-pairs":
        for i, x in enumerate(G):
            for j, y in enumerate(G):
                ex, ey = enc(x), enc(y)
                t = f"{i},{j}"
                nt = x.real != 0 and x.imag != 0 and y.real != 0 and y.imag != 0
                c.chk("scalar_mult", "s*s:" + t, lambda: X.scalar_mult(ex, ey), np.asarray(x * y), nontrivial=nt)
                c.chk("elementwise_mult", "e*e:" + t, lambda: X.elementwise_mult(ex, ey), np.asarray(x * y), nontrivial=nt)
                c.chk("inner_prod", "inner-ss:" + t, lambda: X.inner_prod(ex, ey), np.asarray(np.conj(x) * y), nontrivial=nt)
                if y != 0:
                    c.chk("elementwise_division", "div:" + t, lambda: X.elementwise_division(ex, ey), np.asarray(x / y), exact=False, nontrivial=nt)
                    c.chk("scalar_divide", "sdiv:" + t, lambda: X.scalar_divide(ex, ey), np.asarray(x / y), exact=False, nontrivial=nt)
            ex = enc(x)
            c.chk("conj", f"conj:{i}", lambda: X.conj(ex), np.asarray(np.conj(x)))
            c.chk("conjugate", f"conjugate-s:{i}", lambda: X.conjugate(ex), np.asarray(np.conj(x)))
            c.chk("absolute_value", f"abs:{i}", lambda: X.absolute_value(ex), np.asarray(abs(x)), exact=False)
            c.chk("norm_sqr", f"norm_sqr-s:{i}", lambda: X.norm_sqr(ex), np.asarray((x * np.conj(x)).real))
            c.chk("norm", f"norm-s:{i}", lambda: X.norm(ex), np.asarray(abs(x)), exact=False)
            c.chk("real", f"real-s:{i}", lambda: X.real(ex), np.asarray(x.real))
            c.chk("imag", f"imag-s:{i}", lambda: X.imag(ex), np.asarray(x.imag))
            if x != 0:
                c.chk("inverse", f"inv:{i}", lambda: X.inverse(ex), np.asarray(1 / x), exact=False)
                c.chk("inverse", f"inv-again:{i}", lambda: X.inverse(ex), np.asarray(1 / x), exact=False)
                ey1 = enc(2 - 1j)
                c.chk("scalar_divide", f"sdiv-reuse-denominator:{i}", lambda: (X.scalar_divide(ey1, ex), X.scalar_divide(ey1, ex))[1], np.asarray((2 - 1j) / x), exact=False)
    elif group == "vectors":
        for off in offs:
            for s in shapes1:
                a, b = fill(s, off), fill(s, off + 5)
                sc = G[(off + 4) % 25]
                ea, eb, es = enc(a), enc(b), enc(sc)
                t = f"{s}:{off}"
                c.chk("scalar_mult", "s*v:" + t, lambda: X.scalar_mult(es, ea), sc * a)
                c.chk("scalar_mult", "v*s:" + t, lambda: X.scalar_mult(ea, es), sc * a)
                c.chk("elementwise_mult", "v.v:" + t, lambda: X.elementwise_mult(ea, eb), a * b)
                c.chk("inner_prod", "inner-vv:" + t, lambda: X.inner_prod(ea, eb), np.asarray(np.vdot(a, b)))
                c.chk("norm_sqr", "norm_sqr-v:" + t, lambda: X.norm_sqr(ea), np.asarray(np.vdot(a, a).real))
                c.chk("norm", "norm-v:" + t, lambda: X.norm(ea), np.asarray(np.linalg.norm(a)), exact=False)
                c.chk("conjugate", "conjugate-v:" + t, lambda: X.conjugate(ea), a.conj())
                c.chk("absolute_value", "abs-v:" + t, lambda: X.absolute_value(ea), np.abs(a), exact=False)
                c.chk("make_complex", "make-re-im:" + t, lambda: X.make_complex(torch.tensor(a.real), torch.tensor(a.imag)), a)
                c.chk("make_complex", "make-re-only:" + t, lambda: X.make_complex(torch.tensor(a.real)), a.real + 0j)
                c.chk("make_complex", "make-numpy:" + t, lambda: X.make_complex(a), a)
                c.chk("numpy", "numpy:" + t, lambda: X.numpy(ea), a)
                if not np.any(b == 0):
                    c.chk("elementwise_division", "div-v:" + t, lambda: X.elementwise_division(ea, eb), a / b, exact=False)
                    c.chk("inverse", "inv-v:" + t, lambda: X.inverse(eb), 1 / b, exact=False)
                if sc != 0:
                    c.chk("scalar_divide", "sdiv-v:" + t, lambda: X.scalar_divide(ea, es), a / sc, exact=False)
                for s2 in shapes1:
                    d = fill(s2, off + 2)
                    ed = enc(d)
                    c.chk("outer_prod", f"outer:{s}x{s2}:{off}", lambda: X.outer_prod(ea, ed), np.outer(a, d.conj()))
                # out= forms
                o = torch.full((2,) + s, 9.0, dtype=torch.double)

                def with_out():
                    r = X.scalar_mult(ea, eb, out=o)
                    if r is not o:
                        raise AssertionError("out= buffer not returned")
                    return o
                c.chk("scalar_mult", "out-fresh:" + t, with_out, a * b)
                # out= buffers that are strided views (a column of a larger work array, a transposed (n,2)
                # array, the real view of a native complex tensor): the product must land in the caller's memory
                work = torch.full((2,) + s + (3,), 9.0, dtype=torch.double)
                pairs = torch.full(s + (2,), 9.0, dtype=torch.double)
                native = torch.full(s, 9.0 + 9.0j, dtype=torch.complex128)
                for nm, ov, back in (("column-of-work-array", work[..., 1], lambda: work[..., 1]),
                                     ("transposed-pairs", pairs.movedim(-1, 0), lambda: pairs.movedim(-1, 0)),
                                     ("view_as_real", torch.view_as_real(native).movedim(-1, 0), lambda: torch.view_as_real(native).movedim(-1, 0))):
                    def strided(ov=ov, back=back):
                        r = X.scalar_mult(ea, eb, out=ov)
                        if r is not ov:
                            raise AssertionError("out= buffer not returned")
                        return back().clone()
                    c.chk("scalar_mult", f"out-strided:{nm}:" + t, strided, a * b)
                if not np.any(b == 0):
                    c.chk("scalar_divide", "sdiv-same-shape-v:" + t, lambda: X.scalar_divide(ea, eb), a / b, exact=False)
                A_ = enc(a)
                c.must_raise("scalar_mult", "alias-first:" + t, lambda: X.scalar_mult(A_, eb, out=A_))
                B_ = enc(b)
                c.must_raise("scalar_mult", "alias-second:" + t, lambda: X.scalar_mult(ea, B_, out=B_))
    elif group == "matrices":
        for off in offs:
            for s in shapes2:
                A = fill(s, off)
                sc = G[(off + 9) % 25]
                eA, es = enc(A), enc(sc)
                t = f"{s}:{off}"
                c.chk("scalar_mult", "s*M:" + t, lambda: X.scalar_mult(es, eA), sc * A)
                c.chk("scalar_mult", "M*s:" + t, lambda: X.scalar_mult(eA, es), sc * A)
                c.chk("conjugate", "conjugate-M:" + t, lambda: X.conjugate(eA), A.conj().T)
                c.chk("conj", "conj-M:" + t, lambda: X.conj(eA), A.conj())
                c.chk("make_complex", "make-numpy-M:" + t, lambda: X.make_complex(A), A)
                c.chk("real", "real-M:" + t, lambda: X.real(eA), A.real)
                c.chk("imag", "imag-M:" + t, lambda: X.imag(eA), A.imag)
                c.chk("numpy", "numpy-M:" + t, lambda: X.numpy(eA), A)
                c.chk("absolute_value", "abs-M:" + t, lambda: X.absolute_value(eA), np.abs(A), exact=False)
                if sc != 0:
                    c.chk("scalar_divide", "sdiv-M:" + t, lambda: X.scalar_divide(eA, es), A / sc, exact=False)
                B0 = fill(s, off + 13)
                eB0 = enc(B0)
                c.chk("elementwise_mult", "M.M:" + t, lambda: X.elementwise_mult(eA, eB0), A * B0)
                if not np.any(B0 == 0):
                    c.chk("elementwise_division", "div-M:" + t, lambda: X.elementwise_division(eA, eB0), A / B0, exact=False)
                    c.chk("scalar_divide", "sdiv-same-shape-M:" + t, lambda: X.scalar_divide(eA, eB0), A / B0, exact=False)
                workM = torch.full((2,) + s + (2,), 9.0, dtype=torch.double)
                pairsM = torch.full(tuple(reversed(s)) + (2,), 9.0, dtype=torch.double)

                def strided_M(ov, back):
                    r = X.scalar_mult(eA, eB0, out=ov)
                    if r is not ov:
                        raise AssertionError("out= buffer not returned")
                    return back().clone()
                c.chk("scalar_mult", "out-strided:column-of-work-array-M:" + t, lambda: strided_M(workM[..., 0], lambda: workM[..., 0]), A * B0)
                c.chk("scalar_mult", "out-strided:transposed-M:" + t, lambda: strided_M(pairsM.permute(2, 1, 0), lambda: pairsM.permute(2, 1, 0)), A * B0)
                for s2 in shapes2:
                    B = fill(s2, off + 1)
                    eB = enc(B)
                    t2 = f"{s}x{s2}:{off}"
                    c.chk("kronecker_prod", "kron:" + t2, lambda: X.kronecker_prod(eA, eB), np.kron(A, B))
                    if s[1] == s2[0]:
                        c.chk("matmul", "matmul:" + t2, lambda: X.matmul(eA, eB), A @ B)
                for s1 in shapes1:
                    if s[1] == s1[0]:
                        v = fill(s1, off + 2)
                        ev = enc(v)
                        c.chk("matmul", f"matvec:{s}x{s1}:{off}", lambda: X.matmul(eA, ev), A @ v)
    elif group == "higher-rank":
        for off in offs:
            for s in [(2, 2, 3), (3, 2, 2), (1, 3, 2), (2, 3, 2, 2), (2, 1, 1)]:
                T3 = fill(s, off + 6)
                e3 = enc(T3)
                t = f"{s}:{off}"
                perm = (1, 0) + tuple(range(2, len(s)))
                c.chk("conjugate", "conjugate-r3:" + t, lambda: X.conjugate(e3), T3.conj().transpose(perm))
                c.chk("conj", "conj-r3:" + t, lambda: X.conj(e3), T3.conj())
                c.chk("absolute_value", "abs-r3:" + t, lambda: X.absolute_value(e3), np.abs(T3), exact=False)
                sc = G[(off + 2) % 25]
                es = enc(sc)
                c.chk("scalar_mult", "r3*s:" + t, lambda: X.scalar_mult(e3, es), sc * T3)
                # the library's own broadcast use: (2,b,g) complex tensor times the float32 constant I
                c.chk("scalar_mult", "r3*I:" + t, lambda: X.scalar_mult(e3, X.I), 1j * T3)
                B = fill(s, off + 1)
                eB = enc(B)
                c.chk("elementwise_mult", "r3.r3:" + t, lambda: X.elementwise_mult(e3, eB), T3 * B)
                if not np.any(B == 0):
                    c.chk("elementwise_division", "r3/r3:" + t, lambda: X.elementwise_division(e3, eB), T3 / B, exact=False)
                    c.chk("inverse", "inv-r3:" + t, lambda: X.inverse(eB), 1 / B, exact=False)
    elif group == "einsum":
        for off in offs:
            for (e, sa, sb) in EQS:
                a, b = fill(sa, off), fill(sb, off + 3)
                ea, eb = enc(a), enc(b)
                w = np.einsum(e, a, b)
                t = f"{e}:{off}"
                c.chk("einsum", "einsum-both:" + t, lambda: X.einsum(e, ea, eb), w)
                c.chk("einsum", "einsum-re:" + t, lambda: X.einsum(e, ea, eb, imag_part=False), w.real)
                c.chk("einsum", "einsum-im:" + t, lambda: X.einsum(e, ea, eb, real_part=False), w.imag)
                c.chk("einsum", "einsum-none:" + t, lambda: np.zeros(()) if X.einsum(e, ea, eb, real_part=False, imag_part=False) is None else np.ones(()), np.zeros(()))
        # the matrix product spelled with EVERY index letter (as the contracted and as a free index): an index name
        # is the caller's choice and must never collide with anything the implementation uses internally
        import string
        letters = string.ascii_lowercase + string.ascii_uppercase
        for li, Lt in enumerate(letters):
            p_, q_ = [x for x in "xyab" if x != Lt.lower() and x != Lt][:2]
            for e, sa, sb in ((f"{p_}{Lt},{Lt}{q_}->{p_}{q_}", (2, 2), (2, 3)), (f"{p_}{Lt},{Lt}{q_}->{p_}{q_}", (2, 3), (3, 2)), (f"{Lt}{p_},{p_}{q_}->{Lt}{q_}", (2, 3), (3, 2))):
                a, b = fill(sa, li % 3), fill(sb, li % 3 + 3)
                ea, eb = enc(a), enc(b)
                w = np.einsum(e, a, b)
                t = f"{e}:{sa}x{sb}"
                c.chk("einsum", "einsum-letter-both:" + t, lambda: X.einsum(e, ea, eb), w)
                c.chk("einsum", "einsum-letter-re:" + t, lambda: X.einsum(e, ea, eb, imag_part=False), w.real)
                c.chk("einsum", "einsum-letter-im:" + t, lambda: X.einsum(e, ea, eb, real_part=False), w.imag)
    elif group == "errors":
        v2, m22, v3 = enc(fill((2,), 0)), enc(fill((2, 2), 0)), enc(fill((3,), 1))
        r3 = enc(fill((2, 2, 2), 1))
        c.must_raise("inner_prod", "inner-rank-vm", lambda: X.inner_prod(v2, m22))
        c.must_raise("inner_prod", "inner-rank-mm", lambda: X.inner_prod(m22, m22))
        for la_ in (1, 2, 3, 4):
            for lb_ in (1, 2, 3, 4):
                if la_ != lb_:
                    xa, xb = enc(fill((la_,), 2)), enc(fill((lb_,), 5))
                    c.must_raise("inner_prod", f"inner-length-mismatch-{la_}-{lb_}", lambda: X.inner_prod(xa, xb))
        c.must_raise("outer_prod", "outer-rank-mv", lambda: X.outer_prod(m22, v2))
        c.must_raise("outer_prod", "outer-rank-vm", lambda: X.outer_prod(v2, m22))
        c.must_raise("outer_prod", "outer-rank-ss", lambda: X.outer_prod(enc(1 + 1j), enc(2j)))
        c.must_raise("kronecker_prod", "kron-rank-vm", lambda: X.kronecker_prod(v2, m22))
        c.must_raise("kronecker_prod", "kron-rank-mv", lambda: X.kronecker_prod(m22, v2))
        c.must_raise("kronecker_prod", "kron-rank-r3", lambda: X.kronecker_prod(r3, m22))
        c.must_raise("elementwise_division", "div-shape-23", lambda: X.elementwise_division(v2, v3))
        c.must_raise("elementwise_division", "div-shape-vm", lambda: X.elementwise_division(v2, m22))
    elif group == "sigmoid-and-constants":
        xs = np.array([-700.0, -30.0, -3.0, 0.0, 0.5, 3.0, 40.0, 700.0])
        ys = np.array([0.0, 1.0, -2.0, 3.1, 0.3, -1.0, 2.5, -0.7])
        for i in range(len(xs)):
            for j in range(len(ys)):
                z = xs[i] + 1j * ys[j]
                c.chk("sigmoid", f"sigmoid:{i},{j}", lambda: X.sigmoid(torch.tensor([xs[i]], dtype=torch.double), torch.tensor([ys[j]], dtype=torch.double)),
                      np.array([1 / (1 + np.exp(-z))]), exact=False)
        zz = xs[:, None] + 1j * ys[None, :]
        c.chk("sigmoid", "sigmoid-matrix", lambda: X.sigmoid(torch.tensor(zz.real.copy()), torch.tensor(zz.imag.copy())), 1 / (1 + np.exp(-zz)), exact=False)
        c.chk("I", "I-is-i", lambda: X.I.to(torch.double), np.asarray(1j))
        for off in offs:
            a = fill((3,), off + 2)
            ea = enc(a)
            c.chk("scalar_mult", f"v*I:{off}", lambda: X.scalar_mult(ea, X.I), 1j * a)
            A = fill((2, 3), off)
            eA = enc(A)
            c.chk("scalar_mult", f"M*I:{off}", lambda: X.scalar_mult(eA, X.I), 1j * A)
    elif group == "broadcast":
        # every pair of shapes that numpy/torch broadcasting accepts (ranks <= 3, extents in {1,2,3})
        shapes = [()] + [(a,) for a in (1, 2, 3)] + [(a, b) for a in (1, 2, 3) for b in (1, 2, 3)] + [(2, 1, 3), (1, 2, 1), (2, 3, 1), (1, 1, 2), (2, 2, 3)]
        for off in offs[:2]:
            for sa in shapes:
                for sb in shapes:
                    try:
                        tgt = np.broadcast_shapes(sa, sb)
                    except ValueError:
                        continue
                    a, b = fill(sa, off), fill(sb, off + 3)
                    ea, eb = enc(a), enc(b)
                    t = f"{sa}x{sb}:{off}"
                    c.chk("scalar_mult", "bc-mult:" + t, lambda: X.scalar_mult(ea, eb), a * b)
                    c.chk("elementwise_mult", "bc-emult:" + t, lambda: X.elementwise_mult(ea, eb), a * b)
                    o = torch.full((2,) + tuple(tgt), 7.0, dtype=torch.double)
                    c.chk("scalar_mult", "bc-mult-out:" + t, lambda: X.scalar_mult(ea, eb, out=o), a * b)
                    if not np.any(b == 0) and sb == ():
                        c.chk("scalar_divide", "bc-sdiv:" + t, lambda: X.scalar_divide(ea, eb), a / b, exact=False)
    elif group == "noninteger":
        for off in offs:
            for s in shapes2:
                A, B = fill(s, off, True), fill(s, off + 1, True)
                eA, eB = enc(A), enc(B)
                t = f"{s}:{off}"
                c.chk("elementwise_mult", "ni-M.M:" + t, lambda: X.elementwise_mult(eA, eB), A * B, exact=False)
                c.chk("elementwise_division", "ni-div:" + t, lambda: X.elementwise_division(eA, eB), A / B, exact=False)
                c.chk("conjugate", "ni-conjugate:" + t, lambda: X.conjugate(eA), A.conj().T)
                c.chk("kronecker_prod", "ni-kron:" + t, lambda: X.kronecker_prod(eA, eB), np.kron(A, B), exact=False)
                c.chk("inverse", "ni-inv:" + t, lambda: X.inverse(eA), 1 / A, exact=False)
                if s[0] == s[1]:
                    c.chk("matmul", "ni-matmul:" + t, lambda: X.matmul(eA, eB), A @ B, exact=False)
            for s in shapes1:
                a, b = fill(s, off, True), fill(s, off + 2, True)
                ea, eb = enc(a), enc(b)
                c.chk("inner_prod", f"ni-inner:{s}:{off}", lambda: X.inner_prod(ea, eb), np.asarray(np.vdot(a, b)), exact=False)
                c.chk("outer_prod", f"ni-outer:{s}:{off}", lambda: X.outer_prod(ea, eb), np.outer(a, b.conj()), exact=False)
                c.chk("norm", f"ni-norm:{s}:{off}", lambda: X.norm(ea), np.asarray(np.linalg.norm(a)), exact=False)


def run_item(item):
    acc = Acc()
    run_group(acc, item["group"], item["tier"])
    acc.sample(dict(group=item["group"], example="every function of the group on every shape/fill of the alphabet"), cap=1)
    acc.states = acc.evaluations
    acc.transitions = acc.evaluations
    acc.traces = acc.evaluations
    return acc


def replay(case):
    acc = Acc()
    run_group(acc, case["group"], "thorough", only=case["id"])
    if acc.evaluations == 0:
        run_group(acc, case["group"], "quick", only=case["id"])
    return acc
