"""C11 - saving and reloading reproduces the state exactly and has no side effects.

E2: breadth-first search over histories of {randomise, train, add-unitary, save, load, autoload,
reserved-key save, ModelSaver save} on two models, two files and five persistent metadata objects,
with a dict reference model stepped in lock-step; states deduplicated on the canonical abstraction.
"""
import hashlib
import math
import os
import shutil
import tempfile
import numpy as np
import torch

from ..common import lib, call, LibRaised, sha, HOME, EngineError
from ..engine.acc import Acc

ID = "C11"
ENGINE = "bfs"
ENGINE_NAME = "E2 history BFS"
RULE = ("one evaluation = one transition (history + one more operation) executed on fresh real objects in a fresh directory with "
        "the reference dict model in lock-step; non-trivial = the operation is a save/load/autoload that touches a non-empty "
        "file or model state; distinct = distinct canonical abstract state reached (parameter hashes per named parameter, "
        "unitary-dict hashes, abstract file contents, metadata contents)")
ASSUMPTIONS = ["randomise/train are made deterministic by seeding immediately before the operation, so equal abstract states have equal futures",
               "metadata values are loadable by the installed torch (weights_only loader): numbers, strings, lists, dicts, tensors"]
COUNTS = ("states = distinct canonical abstract states; transitions = operations executed on the real code from a state and compared "
          "with the reference; traces_validated_against_impl = transitions (every one is a real execution)")
KINDS = {"positive": [2, 3], "complex": [2, 3], "mixed": [2, 1, 3]}


def depth(tier):
    return 3 if tier == "quick" else 4


def bound(tier):
    return dict(depth=depth(tier), core_alphabet_depth=depth(tier) + 1, models=2, files=2, metadata_objects=["None", "{}", "{'a':1,'n':{'log':view,'l':[view]},'shape':(2,(3,'a'))} (views of a larger buffer, nested tuple)", "{'nested':{'x':[1,2.5,'s'],'shape':tuple}}", "{'t':tensor}"][:3 if tier == "quick" else 5],
                shapes=KINDS, operations="randomise(m), train(m0), add_unitary(m0), save(m,f,md), load(m,f), autoload(f), save with reserved key, ModelSaver.on_epoch_end")


def roots(tier):
    out = [dict(kind=k, arch=a, tier=tier, alphabet="full", depth=depth(tier)) for k, a in KINDS.items()]
    # one level deeper over the core operations (write - read - change - write - read patterns)
    out += [dict(kind=k, arch=a, tier=tier, alphabet="core", depth=depth(tier) + 1) for k, a in KINDS.items()]
    return out


def n_md(root):
    return 3 if root["tier"] == "quick" else 5


def ops(root, tier):
    if root.get("alphabet") == "core":
        out = [["rand", 0]] + ([["addU", 0]] if root["kind"] != "positive" else [])
        out += [["save", m, f, k] for m in (0, 1) for f in (0, 1) for k in (0, 2)]
        out += [["load", m, f] for m in (0, 1) for f in (0, 1)] + [["autoload", 0], ["autoload", 1]]
        return out
    out = [["rand", 0], ["rand", 1], ["train", 0]]
    if root["kind"] != "positive":
        out.append(["addU", 0])
    for m in (0, 1):
        for f in (0, 1):
            for k in range(n_md(root)):
                out.append(["save", m, f, k])
    for m in (0, 1):
        for f in (0, 1):
            out.append(["load", m, f])
    out += [["autoload", 0], ["autoload", 1]]
    for key in ("rbm_am", "rbm_ph", "unitary_dict"):
        out.append(["badkey", 0, key])
    out += [["saver", 0, 1], ["saver", 0, 2]]
    # locations given as open file objects instead of paths
    out += [["savef", 0, 0, 2], ["savef", 1, 1, 0], ["loadf", 1, 0], ["loadf", 0, 1]]
    return out


def enabled(root, h, op):
    def written(f):
        return any((o[0] in ("save", "savef") and o[2] == f) or (o[0] == "saver" and f == 0)
                   or (o[0] == "badkey" and f == 0 and root["kind"] == "positive" and o[2] != "rbm_am") for o in h)
    if op[0] in ("load", "loadf"):
        return written(op[2])
    if op[0] == "autoload":
        return written(op[1])
    return True


def root_key(root):
    return "init:" + root["kind"] + root.get("alphabet", "")


def H(t):
    t = t.detach().cpu().contiguous()
    return hashlib.sha256(str(t.dtype).encode() + str(tuple(t.shape)).encode() + t.numpy().tobytes()).hexdigest()[:12]


def canon(x):
    if isinstance(x, torch.Tensor):
        return ("T", H(x))
    if isinstance(x, dict):
        return ("D", tuple(sorted((str(k), canon(v)) for k, v in x.items())))
    if isinstance(x, (list, tuple)):
        return ("L" if isinstance(x, list) else "Tu", tuple(canon(v) for v in x))   # a tuple stored must come back a tuple
    return ("V", repr(x))


def ident(x):
    """Identity fingerprint of a metadata object: which container / tensor OBJECTS it is made of and which
    memory the tensors view.  'Saving does not change the metadata object' includes not swapping a nested
    live view for a frozen copy (the values are equal at that moment, the caller's later updates are lost)."""
    if isinstance(x, torch.Tensor):
        return ("T", id(x), x.data_ptr(), tuple(x.shape), tuple(x.stride()), x.untyped_storage().nbytes())
    if isinstance(x, dict):
        return ("D", id(x), tuple((str(k), ident(v)) for k, v in x.items()))
    if isinstance(x, (list, tuple)):
        return ("L", id(x), tuple(ident(v) for v in x))
    return ("V", repr(x))


def has_ud(m):
    return "unitary_dict" in m.__dict__


def abs_model(m):
    nets = tuple((net, tuple((n, H(p)) for n, p in getattr(m, net).named_parameters())) for net in m.networks)
    if has_ud(m):
        udv = m.__dict__["unitary_dict"]
        ud = tuple(sorted((k, H(v)) for k, v in udv.items())) if isinstance(udv, dict) else ("not-a-dictionary", repr(type(udv)))
    else:
        ud = None
    arch = (m.num_visible, m.num_hidden, getattr(m, "num_aux", None) if "num_aux" in m.__dict__ else None)
    return (nets, ud, arch)


def abs_file(path, networks):
    if not os.path.exists(path):
        return None
    try:
        sd = torch.load(path)
    except Exception as e:  # noqa: BLE001  (e.g. a file object the harness opened and the library then refused to write)
        return ("unreadable", type(e).__name__, os.path.getsize(path))
    try:
        nets = tuple((net, tuple((n, H(p)) for n, p in sd[net].items())) for net in networks if net in sd)
        udv = sd.get("unitary_dict")
        is_ud = isinstance(udv, dict) and len(udv) > 0 and all(isinstance(v, torch.Tensor) for v in udv.values())
        ud = tuple(sorted((k, H(v)) for k, v in udv.items())) if is_ud else None
        md = canon({k: v for k, v in sd.items() if k not in networks and not (k == "unitary_dict" and is_ud)})
    except Exception as e:  # noqa: BLE001  (a checkpoint whose network / dictionary entries are not what the library writes)
        return ("malformed", type(e).__name__, sorted(map(str, sd.keys())) if isinstance(sd, dict) else repr(type(sd)))
    return (nets, ud, md)


def MDS():
    # object 2 carries, besides a plain value, live VIEWS of a larger running-log buffer inside nested containers
    buf = torch.arange(6, dtype=torch.double)
    return [None, {}, {"a": 1, "n": {"log": buf[:2], "l": [buf[1:4]]}, "shape": (2, (3, "a"))}, {"nested": {"x": [1, 2.5, "s"], "shape": (2, (3, "a"))}}, {"t": torch.arange(3)}]


def mk(kind, arch, custom=False):
    L = lib()
    kw = {}
    if custom and kind != "positive":
        # a user-supplied dictionary that LACKS one of the default letters and adds one
        d = L.unitaries.create_dict()
        ud = {"Z": d["Z"], "X": d["X"], "H": torch.tensor([[[1.0, 1.0], [1.0, -1.0]], [[0.0, 0.0], [0.0, 0.0]]], dtype=torch.double) / math.sqrt(2)}
        kw = dict(unitary_dict=ud)
    if kind == "mixed":
        return L.DensityMatrix(arch[0], arch[1], arch[2], gpu=False, **kw)
    if kind == "positive":
        return L.types[kind](arch[0], arch[1], gpu=False)
    return L.types[kind](arch[0], arch[1], gpu=False, **kw)


DATA = torch.tensor([[0.0, 1.0], [1.0, 1.0], [1.0, 0.0]], dtype=torch.double)
BASES = np.array([list("ZZ"), list("XZ"), list("ZZ")])  # only letters every dictionary in this world has


class World:
    def __init__(self, root):
        L = lib()
        self.kind = root["kind"]
        self.dir = tempfile.mkdtemp(prefix="c11_", dir=os.path.join(HOME, ".work"))
        torch.manual_seed(1)
        self.M = [mk(self.kind, root["arch"]), mk(self.kind, root["arch"], custom=True)]
        self.mds = MDS()
        self.F = [os.path.join(self.dir, "f0.pt"), os.path.join(self.dir, "f1.pt")]
        # reference model
        self.refM = [abs_model(m) for m in self.M]
        self.refF = [None, None]
        self.refMD = [canon(x) for x in self.mds]
        self.idMD = [ident(x) for x in self.mds]
        self.used_md = set()
        self.networks = self.M[0].networks

    def close(self):
        shutil.rmtree(self.dir, ignore_errors=True)

    def key(self):
        return sha([self.kind, [abs_model(m) for m in self.M], [abs_file(f, self.networks) for f in self.F], [canon(x) for x in self.mds]])

    def consistent(self):
        """abstraction(real) == reference, for everything"""
        probs = []
        for i, m in enumerate(self.M):
            if abs_model(m) != self.refM[i]:
                probs.append(f"model{i}")
        for i, f in enumerate(self.F):
            if abs_file(f, self.networks) != self.refF[i]:
                probs.append(f"file{i}")
        for i, x in enumerate(self.mds):
            if canon(x) != self.refMD[i]:
                probs.append(f"metadata{i}")
            elif ident(x) != self.idMD[i]:
                probs.append(f"metadata{i}-object-identity")
        return probs

    def apply(self, op, check):
        """execute op on the real objects, step the reference; returns list of (sig, detail)"""
        L = lib()
        out = []
        kind = op[0]
        if kind == "rand":
            m = self.M[op[1]]
            torch.manual_seed(100 + op[1])
            m.reinitialize_parameters()
            for r, net in enumerate(m.networks):
                rb = getattr(m, net)
                rb.visible_bias.data += 0.3 * (r + 1)
                rb.hidden_bias.data -= 0.2 * (r + 1)
                if hasattr(rb, "aux_bias"):
                    rb.aux_bias.data += 0.15 * (r + 1)  # whatever state is saved must come back, phase auxiliary bias included
            self.refM[op[1]] = abs_model(m)  # the property does not constrain what randomise produces
        elif kind == "train":
            torch.manual_seed(7)
            kw = dict(input_bases=BASES) if self.kind != "positive" else {}
            self.M[0].fit(DATA, epochs=1, pos_batch_size=2, lr=0.1, **kw)
            self.refM[0] = abs_model(self.M[0])
        elif kind == "addU":
            self.M[0].unitary_dict["H"] = torch.tensor([[[1.0, 1.0], [1.0, -1.0]], [[0.0, 0.0], [0.0, 0.0]]], dtype=torch.double) / math.sqrt(2)
            self.refM[0] = abs_model(self.M[0])
        elif kind in ("save", "saver", "savef"):
            if kind in ("save", "savef"):
                _, mi, fi, k = op
            else:
                mi, fi, k = 0, 0, op[2]
            m = self.M[mi]
            reused = k in self.used_md
            try:
                if kind == "save" and fi == 1:
                    # file 1 is addressed by its bare name, relative to the current directory
                    cwd_ = os.getcwd()
                    os.chdir(self.dir)
                    try:
                        call(m.save, os.path.basename(self.F[fi]), self.mds[k])
                    finally:
                        os.chdir(cwd_)
                elif kind == "save":
                    call(m.save, self.F[fi], self.mds[k])
                elif kind == "savef":
                    with open(self.F[fi], "wb") as fh:
                        call(m.save, fh, self.mds[k])
                else:
                    sv = L.callbacks.ModelSaver(1, self.dir, "f{}.pt", save_initial=False, metadata=self.mds[k])
                    call(sv.on_epoch_end, m, 0)
            except LibRaised as e:
                out.append((f"roundtrip:save-raised:{e.kind}:{'metadata-object-reused' if reused else 'fresh-metadata'}:{'has-unitary-dict' if has_ud(m) else 'no-unitary-dict'}",
                            dict(error=str(e))))
                self.used_md.add(k)
                return out
            self.used_md.add(k)
            a = abs_model(m)
            self.refF[fi] = (a[0], a[1], canon(self.mds[k] if self.mds[k] else {}) if True else None)
            # expected metadata content is the content the caller passed (reference copy)
            self.refF[fi] = (a[0], a[1], self.refMD[k] if self.refMD[k] != canon(None) else canon({}))
        elif kind in ("load", "loadf"):
            _, mi, fi = op
            try:
                if kind == "load":
                    call(self.M[mi].load, self.F[fi])
                elif fi == 0:
                    with open(self.F[fi], "rb") as fh:
                        call(self.M[mi].load, fh)
                else:
                    # the saved state sits in a stream behind a header the caller has already consumed: loading starts
                    # at the position the caller left the stream at
                    box_ = os.path.join(self.dir, "container.bin")
                    with open(self.F[fi], "rb") as fh, open(box_, "wb") as gh:
                        gh.write(b"# qucumber checkpoint follows\n")
                        gh.write(fh.read())
                    with open(box_, "rb") as fh:
                        fh.readline()
                        call(self.M[mi].load, fh)
            except LibRaised as e:
                out.append((f"roundtrip:load-raised:{e.kind}", dict(error=str(e))))
                return out
            rf = self.refF[fi]
            old = self.refM[mi]
            self.refM[mi] = (rf[0], rf[1] if (old[1] is not None and rf[1] is not None) else old[1], old[2])
        elif kind == "autoload":
            fi = op[1]
            try:
                self.M[1] = call(type(self.M[1]).autoload, self.F[fi], gpu=False)
            except LibRaised as e:
                out.append((f"roundtrip:autoload-raised:{e.kind}", dict(error=str(e))))
                return out
            rf = self.refF[fi]
            self.refM[1] = (rf[0], rf[1], self.refM[0][2])
            self.M1_custom = False
        elif kind == "badkey":
            key = op[2]
            reserved = key in self.networks or (key == "unitary_dict" and has_ud(self.M[0]))
            if reserved:
                # a reserved NAME is refused whatever value comes with it (truthy, falsy, alone or among other entries)
                for vn, val in (("1", 1), ("None", None), ("0", 0), ("empty-str", ""), ("empty-dict", {}), ("empty-list", []), ("zero-tensor", torch.tensor(0.0)), ("with-others", 1)):
                    md_ = {key: val} if vn != "with-others" else {"note": "x", key: val, "z": 2}
                    keys_ = list(md_.keys())
                    try:
                        self.M[0].save(self.F[0], md_)
                        out.append(("roundtrip:reserved-metadata-key-accepted", dict(key=key, value=vn)))
                        self.refF[0] = abs_file(self.F[0], self.networks)
                        break
                    except ValueError:
                        pass
                    except Exception as e:  # noqa: BLE001
                        out.append((f"roundtrip:reserved-key-raised-{type(e).__name__}", dict(key=key, value=vn)))
                        break
                    if list(md_.keys()) != keys_:
                        # a refused call must leave the caller's metadata object as it was (it will be corrected and re-used)
                        out.append(("roundtrip:refused-save-changed-the-metadata-object", dict(key=key, value=vn, keys_after=list(map(str, md_.keys())))))
                        break
            else:
                # the name is NOT reserved for this state type (a PositiveWaveFunction has no phase network and no
                # unitary dictionary): it is ordinary caller metadata and round-trips like any other entry
                md_ = {key: 7, "note": "x"}
                try:
                    call(self.M[0].save, self.F[0], md_)
                    a_ = abs_model(self.M[0])
                    self.refF[0] = (a_[0], a_[1], canon(md_))
                except LibRaised as e:
                    out.append((f"roundtrip:unreserved-name-refused:{e.kind}", dict(key=key)))
        else:
            raise EngineError(f"unknown op {op}")
        if check:
            probs = self.consistent()
            if probs:
                what = "+".join(sorted(set(p.rstrip("0123456789") for p in probs)))
                out.append((f"roundtrip:{kind}:real-state-differs-from-reference:{what}", dict(differs=probs)))
        return out


def expand(task):
    root, hist, op = task
    acc = Acc()
    w = World(root)
    try:
        for o in hist:
            w.apply(o, check=False)
        viols = w.apply(op, check=True)
        acc.ev(1, nontrivial=op[0] in ("save", "load", "autoload", "saver", "badkey", "savef", "loadf"))
        for sig, detail in viols:
            acc.viol(sig, dict(root=root, history=hist + [op]), detail=detail)
        key = w.key()
        acc.outcome(key)
        if not hist:
            acc.sample(dict(kind=root["kind"], history=[op]), cap=1)
        elif len(hist) == 2 and op[0] == "autoload":
            acc.sample(dict(kind=root["kind"], history=hist + [op]), cap=1)
        return dict(key=key, acc=acc.to_dict(), dead=bool(viols))
    finally:
        w.close()


def replay(case):
    res = expand((case["root"], case["history"][:-1], case["history"][-1]))
    return res["acc"]
