"""C13 - streaming observable statistics equal the statistics of all drawn samples.

 (a) the pairwise-merge routine: every dataset over a 4-value alphabet up to length 6 x EVERY
     composition into consecutive chunks, merged left to right, vs one-pass statistics
 (b) the drivers ObservableBase.statistics / System.statistics over a grid of (num_samples,
     num_chains, burn_in, steps, initial_state, overwrite, observable set, state type), with the
     public sample() method wrapped on the state to capture every chain state and its schedule.
"""
import itertools
import math
import numpy as np
import torch

from ..common import lib, call, LibRaised, sha, EngineError
from ..engine.acc import Acc
from ..engine.env import RngGuard
from . import _fit as F

ID = "C13"
ENGINE_NAME = "E3 input lattice (merge) + E1-style owned sampling schedule (drivers)"
RULE = ("one evaluation = one (dataset, composition into chunks) merged by the library routine, or one statistics() driver run "
        "whose every sample() call was captured; non-trivial = at least two chunks / at least two draws; distinct = distinct "
        "(dataset, composition) or (state type, observable set, num_samples, num_chains, burn_in, steps, initial_state, overwrite)")
ASSUMPTIONS = ["chunk statistics follow the library's own statistics_from_samples convention (torch.var_mean: a 1-element chunk has variance NaN)",
               "driver runs use the seeded torch generator in observe mode; the oracle is computed from the captured chain states, so it does not depend on the draws"]
COUNTS = ("states = datasets x compositions + driver configurations; transitions = merge steps + captured sample() calls; "
          "traces_validated_against_impl = driver runs whose schedule, continuity and reported numbers all matched")
VAL = [-1.5, 0.0, 0.25, 2.0]


def bound(tier):
    q = tier == "quick"
    return dict(merge=dict(values=VAL, max_length=6 if q else 8, compositions="all 2^(L-1)"),
                drivers=dict(num_samples=[1, 6 if q else 9], num_chains=[0, 7 if q else 10], burn_in=[0, 1, 3], steps=[0, 1, 2], initial_state=["None", 1, 2, 3],
                             overwrite=[False, True], observables=["SigmaZ", "SigmaX - 2*SigmaZ (composite)", "System(SigmaZ, SigmaX, NeighbourInteraction)"],
                             kinds=["positive", "complex", "mixed"] if not q else ["positive", "mixed", "complex(reduced)"]))


def plan(tier, seed):
    items = []
    Lmax = 6 if tier == "quick" else 8
    for L in range(1, Lmax + 1):
        parts = 1 if L <= 4 else (4 if L == 5 else 16 if L == 6 else 64 if L == 7 else 256)
        for p in range(parts):
            items.append(dict(layer="merge", L=L, part=p, parts=parts))
    for off in (1e6, -3e8):
        for L in (2, 3, 4) if tier == "quick" else (2, 3, 4, 5):
            items.append(dict(layer="merge", L=L, part=0, parts=1, offset=off))
    for kind in ("positive", "complex", "mixed"):
        for oset in ("Z", "composite", "system", "offset"):
            for ns in range(1, 7 if tier == "quick" else 10):
                if oset == "offset" and (kind != "positive" or ns in (2, 5)):
                    continue
                if tier == "quick" and kind == "complex" and (oset != "system" or ns in (4, 5)):
                    continue
                items.append(dict(layer="driver", kind=kind, oset=oset, ns=ns, tier=tier))
    return items


def onepass(xs):
    n = len(xs)
    m = math.fsum(xs) / n
    return m, (math.fsum((x - m) ** 2 for x in xs) / (n - 1) if n > 1 else float("nan")), n


def feq(a, b, tol=1e-12):
    if isinstance(a, float) and isinstance(b, float) and math.isnan(a) and math.isnan(b):
        return True
    try:
        return abs(a - b) <= tol * max(1.0, abs(a), abs(b))
    except Exception:  # noqa: BLE001
        return False


def run_merge(acc, L, part, parts, offset=0.0):
    Lb = lib()
    import qucumber.observables.utils as U

    upd = getattr(U, "_update_statistics", None)
    if upd is None:
        acc.count("merge_routine_unavailable")
        acc.ev(1, nontrivial=False)
        acc.outcome("unavailable")
        return
    memo = {}

    def chunkstat(c):
        if c not in memo:
            v, m = torch.var_mean(torch.tensor(c, dtype=torch.double))
            memo[c] = (m.item(), v.item(), len(c))
        return memo[c]

    flagged = set()
    vals = [offset + x for x in VAL]
    vtol = 1e-12 if offset == 0 else 1e-5  # chunk variances from torch.var_mean lose ~eps*|mean|/spread themselves
    for idx, xs in enumerate(itertools.product(vals, repeat=L)):
        if idx % parts != part:
            continue
        want = onepass(list(xs))
        for mask in range(2 ** (L - 1)):
            chunks = []
            cur = [xs[0]]
            for i in range(1, L):
                if mask >> (i - 1) & 1:
                    chunks.append(tuple(cur))
                    cur = [xs[i]]
                else:
                    cur.append(xs[i])
            chunks.append(tuple(cur))
            acc.ev(1, nontrivial=len(chunks) >= 2)
            single = any(len(c) == 1 for c in chunks)
            q = "single-element-chunk" if single else "chunks>=2-elements"
            case = dict(layer="merge", data=list(xs), chunks=[list(c) for c in chunks], offset=offset)
            a = (0.0, 0.0, 0)
            try:
                for c in chunks:
                    m, v, n = chunkstat(c)
                    a = upd(a[0], a[1], a[2], m, v, n)
                    acc.transitions += 1
            except Exception as e:  # noqa: BLE001
                sig = f"stats:merge:raised:{type(e).__name__}:{q}"
                if sig not in flagged:
                    flagged.add(sig)
                    acc.viol(sig, case, observed=repr(e), expected=want)
                continue
            if not (feq(float(a[0]), want[0]) and feq(float(a[1]), want[1], vtol) and a[2] == want[2]):
                sig = f"stats:merge:value:{q}" + ("" if offset == 0 else ":large-offset")
                if sig not in flagged:
                    flagged.add(sig)
                    acc.viol(sig, case, observed=list(a), expected=list(want))
                else:
                    acc.n_violations += 1
        acc.outcome(sha([round(want[0], 9), L]))
    acc.states = acc.evaluations


def make_obs(oset):
    O = lib().observables
    if oset == "Z":
        return O.SigmaZ(), None
    if oset == "composite":
        return O.SigmaX() - 2 * O.SigmaZ(), None
    if oset == "offset":
        return O.SigmaZ() + 1e8, None
    return None, O.System(O.SigmaZ(), O.SigmaX(), O.NeighbourInteraction(c=1))


def run_driver_case(acc, kind, oset, ns, nc, bi, stp, init, ow, flagged, reuse=None, dtype=None):
    L = lib()
    if reuse is None:
        st, arch, params = F.fresh_state(kind, 2)
        ob, system = make_obs(oset)
    else:
        st, ob, system = reuse  # non-initial state: same model and same observable objects, used before
    calls = []
    orig = st.sample

    def wrapped(k, num_samples=1, initial_state=None, overwrite=False):
        inp = None if initial_state is None else initial_state.clone()
        r = orig(k, num_samples=num_samples, initial_state=initial_state, overwrite=overwrite)
        calls.append(dict(k=k, n=num_samples, inp=inp, inp_obj=initial_state, ow=overwrite, out=r.clone(), out_obj=r))
        return r

    st.sample = wrapped
    udt = {None: torch.double, "f32": torch.float32, "i64": torch.int64}[dtype]
    user = None if init is None else torch.tensor([[float((r + c) % 2), float((r >> 1) & 1)] for r in range(init) for c in [r]], dtype=torch.double).reshape(init, 2).to(udt)
    user0 = None if user is None else user.clone()
    chains = init if init is not None else (min(nc, ns) if nc != 0 else ns)
    q = "single-chain" if chains == 1 else "multi-chain"
    case = dict(layer="driver", kind=kind, oset=oset, ns=ns, nc=nc, burn_in=bi, steps=stp, init=init, overwrite=ow, reused_objects=reuse is not None, user_dtype=dtype)
    torch.manual_seed(ns * 1000 + nc * 100 + bi * 10 + stp)
    target = system if system is not None else ob
    h0 = [p.clone() for net in st.networks for p in getattr(st, net).parameters()]

    def flag(sig, obs=None, exp=None):
        if sig not in flagged:
            flagged.add(sig)
            acc.viol(sig, case, observed=obs, expected=exp)
        else:
            acc.n_violations += 1

    try:
        res = call(target.statistics, st, num_samples=ns, num_chains=nc, burn_in=bi, steps=stp, initial_state=user, overwrite=ow)
    except LibRaised as e:
        flag(f"stats:driver:raised:{e.kind}:{q}", e.tb)
        return
    except ZeroDivisionError as e:
        flag(f"stats:driver:raised:ZeroDivisionError:{q}", repr(e))
        return
    finally:
        del st.sample
    acc.transitions += len(calls)
    draws = math.ceil(ns / chains)
    ks = [c["k"] for c in calls]
    if ks != [bi] + [stp] * (draws - 1):
        flag(f"stats:driver:burn-in/steps-schedule:{q}", ks, [bi] + [stp] * (draws - 1))
        return
    if any(tuple(c["out"].shape) != (chains, 2) for c in calls):
        flag(f"stats:driver:number-of-chains:{q}", [list(c["out"].shape) for c in calls], [chains, 2])
        return
    for i, c_ in enumerate(calls):
        if c_["k"] == 0 and c_["inp"] is not None and not torch.equal(c_["out"].to(torch.double), c_["inp"].to(torch.double)):
            flag(f"stats:driver:zero-step-draw-moved-the-chains:{q}", c_["out"], c_["inp"])
            return
    for i in range(1, len(calls)):
        if calls[i]["inp"] is None or not torch.equal(calls[i]["inp"], calls[i - 1]["out"]):
            flag(f"stats:driver:chains-not-continued:{q}", None, None)
            return
    if user is not None:
        if calls[0]["inp"] is None or not torch.equal(calls[0]["inp"].to(torch.double), user0.to(torch.double)):
            flag(f"stats:driver:first-draw-does-not-start-from-user-chains:{q}")
            return
        if ow and dtype is None and not torch.equal(user, calls[-1]["out"]):
            flag(f"stats:driver:overwrite-did-not-update-user-tensor:{q}", user, calls[-1]["out"])
        if not ow and not torch.equal(user, user0):
            flag(f"stats:driver:user-tensor-modified-without-overwrite:{q}", user, user0)
    else:
        if calls[0]["inp"] is not None or calls[0]["n"] != chains:
            flag(f"stats:driver:first-draw-arguments:{q}")
            return
    allstates = torch.cat([c["out"] for c in calls])
    pairs = system.observables.items() if system is not None else [(None, ob)]
    for name, o in pairs:
        vals = [float(x) for x in call(o.apply, st, allstates).tolist()]
        m, v, n = onepass(vals)
        r = res[name] if name is not None else res
        alone = None
        vt = 1e-12 if oset != "offset" else 1e-5
        ok = (r["num_samples"] == n == chains * draws and n >= ns and feq(float(r["mean"]), m) and feq(float(r["variance"]), v, vt)
              and (feq(float(r["std_error"]), math.sqrt(v / n), vt) if n > 1 else True))
        if not ok:
            flag(f"stats:driver:reported-numbers-differ-from-one-pass:{'system' if system is not None else 'single'}:{q}",
                 {k_: r[k_] for k_ in ("mean", "variance", "std_error", "num_samples")}, dict(mean=m, variance=v, num_samples=n))
            return
    if any(not torch.equal(a, b) for a, b in zip(h0, [p for net in st.networks for p in getattr(st, net).parameters()])):
        flag("stats:driver:model-parameters-changed")
    acc.traces += 1
    acc.outcome(sha([ns, nc, bi, stp, init, ow, chains, draws]))
    if reuse is None and bi == 1 and stp == 1:
        # the same objects again, with another request size, then after an in-place parameter update
        from ..common import update_params, pattern, net_sizes
        run_driver_case(acc, kind, oset, ns % 6 + 1, nc, 0, 2, init, ow, flagged, reuse=(st, ob, system))
        update_params(st, [pattern(n_, 3, r_) for r_, n_ in enumerate(net_sizes(kind, arch))], "copy_")
        run_driver_case(acc, kind, oset, ns, nc, bi, stp, init, ow, flagged, reuse=(st, ob, system))
        if ns == 3:
            update_params(st, [pattern(n_, 4, r_) for r_, n_ in enumerate(net_sizes(kind, arch))], "reinit")
            run_driver_case(acc, kind, oset, ns, nc, bi, stp, init, ow, flagged, reuse=(st, ob, system))


def run_item(item):
    acc = Acc()
    if item["layer"] == "merge":
        run_merge(acc, item["L"], item["part"], item["parts"], item.get("offset", 0.0))
        acc.sample(dict(layer="merge", L=item["L"], example_data=VAL[:item["L"]], compositions="all"), cap=1)
        return acc
    flagged = set()
    kind, oset, ns = item["kind"], item["oset"], item["ns"]
    with RngGuard("observe"):
        for nc in range(0, 8 if item.get("tier", "quick") == "quick" else 11):
            for bi in (0, 1, 3):
                for stp in (0, 1, 2):
                    for init in (None, 1, 2, 3):
                        for ow in (False, True):
                            if init is None and ow:
                                continue
                            if init is not None and nc not in (0, 3):
                                continue  # num_chains is ignored when chains are given: two values suffice
                            acc.ev(1, nontrivial=True)
                            run_driver_case(acc, kind, oset, ns, nc, bi, stp, init, ow, flagged)
                            if init is not None and bi == 1:
                                for dt in ("f32", "i64"):
                                    acc.ev(1, nontrivial=True)
                                    run_driver_case(acc, kind, oset, ns, nc, bi, stp, init, ow, flagged, dtype=dt)
    acc.states = acc.evaluations
    acc.sample(dict(layer="driver", kind=kind, observable_set=oset, num_samples=ns, grid="num_chains 0..7 x burn_in x steps x initial_state x overwrite"), cap=1)
    return acc


def replay(case):
    acc = Acc()
    if case.get("layer") == "merge":
        import qucumber.observables.utils as U
        upd = U._update_statistics
        want = onepass(case["data"])
        a = (0.0, 0.0, 0)
        acc.ev(1)
        try:
            for c in case["chunks"]:
                v, m = torch.var_mean(torch.tensor(c, dtype=torch.double))
                a = upd(a[0], a[1], a[2], m.item(), v.item(), len(c))
            if not (feq(float(a[0]), want[0]) and feq(float(a[1]), want[1], 1e-12 if not case.get("offset") else 1e-5) and a[2] == want[2]):
                acc.viol("stats:merge:value", case, observed=list(a), expected=list(want))
        except Exception as e:  # noqa: BLE001
            acc.viol(f"stats:merge:raised:{type(e).__name__}", case, observed=repr(e), expected=list(want))
        return acc
    acc.ev(1)
    run_driver_case(acc, case["kind"], case["oset"], case["ns"], case["nc"], case["burn_in"], case["steps"], case["init"], case["overwrite"], set(), dtype=case.get("user_dtype"))
    return acc
