"""C17 - periodic callbacks fire on schedule and their records match what happened.

E1 + E3: the real fit with MetricEvaluator, ObservableEvaluator, Logger and ModelSaver of different
periods plus an independent recorder placed last; a stop request is injected (choice tape, one per
execution) at every batch end / epoch end of the run; optionally a second consecutive fit with or
without clear_history.  Everything the callbacks expose afterwards is compared with the recorder.
"""
import contextlib
import csv
import io
import hashlib
import math
import os
import shutil
import tempfile
import numpy as np
import torch

from ..common import lib, call, LibRaised, sha, HOME, EngineError
from ..engine.acc import Acc
from ..engine import tape as T
from ..engine.env import RngGuard
from . import _fit as F

ID = "C17"
ENGINE_NAME = "E1 choice-tape explorer + E3 lattice"
RULE = ("one evaluation = one complete training history (one or two consecutive fit calls) with four periodic library callbacks and "
        "an independent recorder, under one tape (a stop request at one batch/epoch end, or none); non-trivial = at least one "
        "callback is scheduled to act; distinct = distinct (configuration, tape)")
ASSUMPTIONS = ["metric values are deterministic functions of the parameters, recomputed by the recorder at the same epoch end",
               "observable statistics are recomputed from the chain states captured by wrapping the public sample() method (C13's oracle)"]
COUNTS = ("states = choice-tree nodes; transitions = epoch-end events delivered to the callbacks; traces_validated_against_impl = complete "
          "histories whose every exposed record matched the recorder")
MD = ["none", "dict", "callable"]


def bound(tier):
    q = tier == "quick"
    return dict(periods=dict(metric=[1, 4], observable=[1, 3], logger=[1, 3], saver=[1, 3]), starting_epoch=[1, 3], epochs=[0, 5 if q else 7],
                stop="none / at every batch end / at every epoch end of the first fit", metadata=MD, metadata_only=[False, True], save_initial=[True, False],
                kinds=["positive", "complex", "mixed(reduced)"], consecutive=["single fit", "two fits", "two fits with clear_history between", "a metric raises at its 2nd scheduled evaluation, caller continues",
                                                                                    "fit again with the stop request still pending (after every injected stop)"])


def plan(tier, seed):
    cfgs = []
    i = 0
    Emax = 5 if tier == "quick" else 7
    for kind in ("positive", "complex", "mixed"):
        for p1 in (1, 2, 3, 4):
            for p2 in (1, 2, 3):
                for e0 in (1, 2, 3):
                    for E in range(0, Emax + 1):
                        for mode in ("single", "two", "two-clear", "raise"):
                            if kind == "mixed" and (mode != "single" or E > 3 or p1 == 4):
                                continue
                            if tier == "quick" and mode != "single" and (E > 3 or e0 == 3):
                                continue
                            j = i % 12
                            cfgs.append(dict(kind=kind, p1=p1, p2=p2, pl=(p1 % 3) + 1, ps=((p1 + p2) % 3) + 1, e0=e0, E=E, mode=mode,
                                             md=MD[j % 3], mdonly=bool((j // 3) % 2), save_init=bool((j // 6) % 2)))
                            i += 1
    return [dict(configs=cfgs[j:j + 6]) for j in range(0, len(cfgs), 6)]


def csv_epochs(rows):
    """Epoch column of a CSV log as ints; a row that is not data (a repeated header, a torn line) is kept as
    its raw text so that the comparison with the expected schedule fails instead of the harness."""
    out = []
    for r in rows:
        try:
            out.append(int(r["epoch"]))
        except (TypeError, ValueError, KeyError):
            out.append(repr(r.get("epoch")))
    return out


def sf(x):
    try:
        return float(x)
    except (TypeError, ValueError):
        return float("nan")


class Boom(Exception):
    """raised by the scripted failing metric"""


def onepass(xs):
    n = len(xs)
    m = math.fsum(xs) / n
    v = math.fsum((x - m) ** 2 for x in xs) / (n - 1) if n > 1 else float("nan")
    return m, v, n


def feq(a, b):
    try:
        a, b = float(a), float(b)
    except Exception:  # noqa: BLE001
        return False
    if a != a and b != b:
        return True
    return abs(a - b) <= 1e-12 * max(1.0, abs(a), abs(b))


def m1(s, **kw):
    return float(s.rbm_am.visible_bias.sum()) * 0.5 + float(next(iter(s.rbm_am.parameters())).sum()) + kw.get("off", 0)


def run_history(cfg, tape):
    L = lib()
    CB = L.callbacks
    O = L.observables
    kind = cfg["kind"]
    d = tempfile.mkdtemp(prefix="c17_", dir=os.path.join(HOME, ".work"))
    out = []
    nev = 0
    try:
        torch.manual_seed(5)
        st, arch, params = F.fresh_state(kind, 2)
        rows, bstr = F.dataset(2, 3, "distinct")
        data = torch.tensor(rows, dtype=torch.double)
        kw = dict(input_bases=np.array([list(b) for b in bstr])) if kind != "positive" else {}
        # capture chain states through the public sample()
        captured = []
        orig_sample = st.sample

        def wrapped(k, num_samples=1, initial_state=None, overwrite=False):
            r = orig_sample(k, num_samples=num_samples, initial_state=initial_state, overwrite=overwrite)
            captured.append(r.clone())
            return r

        st.sample = wrapped
        def mb(s, **kw_):
            # mode "raise": the second metric fails at its second scheduled evaluation of the first run; the caller
            # catches the error and goes on training with the same callbacks
            if cfg["mode"] == "raise" and state["fit"] == 0:
                state["bcalls"] = state.get("bcalls", 0) + 1
                if state["bcalls"] == 2:
                    raise Boom()
            return 2.0

        me = CB.MetricEvaluator(cfg["p1"], {"a": m1, "b": mb}, log=os.path.join(d, "m.csv"), off=3)
        oe = CB.ObservableEvaluator(cfg["p2"], [O.SigmaZ(), O.NeighbourInteraction(c=1), O.SigmaZ(absolute=True)], log=os.path.join(d, "o.csv"), num_samples=4, num_chains=2, burn_in=1, steps=1)
        msgs = []
        verbose = bool((cfg["p1"] + cfg["e0"]) % 2)
        if verbose:
            me.verbose = True
            oe.verbose = True
        default_msg = bool(cfg["p2"] % 2)
        if default_msg:
            lg = CB.Logger(cfg["pl"], logger_fn=msgs.append, tagv=7)  # documented default message generator
        else:
            lg = CB.Logger(cfg["pl"], logger_fn=msgs.append, msg_gen=lambda s, e, **kw_: f"{e}:{sorted(kw_.items())}", tagv=7)
        md = {"none": None, "dict": {"note": "x"}, "callable": (lambda s, e: {"epoch": e})}[cfg["md"]]
        if cfg["mdonly"]:
            # the folder given as a RELATIVE path: it is the folder that name denoted when the saver was built, wherever
            # the working directory is by the time training runs
            other_ = os.path.join(d, "elsewhere")
            os.makedirs(other_, exist_ok=True)
            os.chdir(d)
            try:
                ms = CB.ModelSaver(cfg["ps"], "sv", "ep{}.pt", save_initial=cfg["save_init"], metadata=md, metadata_only=cfg["mdonly"])
            finally:
                os.chdir(other_)
        else:
            ms = CB.ModelSaver(cfg["ps"], os.path.join(d, "sv"), "ep{}.pt", save_initial=cfg["save_init"], metadata=md, metadata_only=cfg["mdonly"])
        rec = []  # (fit index, epoch, metric value, params clone, captured-count)
        snaps = {}
        state = dict(injected=False, fit=0)

        def params_of(s):
            return [p.detach().clone() for net in s.networks for p in getattr(s, net).parameters()]

        def on_train_start(s):
            snaps[("initial", state["fit"])] = params_of(s)

        def on_epoch_end(s, e):
            rec.append(dict(fit=state["fit"], epoch=e, a=m1(s, off=3), params=params_of(s), ncap=len(captured)))
            if state["fit"] == 0 and not state["injected"] and tape.choose(2, "stop@epoch_end"):
                s.stop_training = True
                state["injected"] = True

        def on_batch_end(s, e, b):
            if state["fit"] == 0 and not state["injected"] and tape.choose(2, "stop@batch_end"):
                s.stop_training = True
                state["injected"] = True

        def on_epoch_start(s, e):
            state["cur"] = e

        R = CB.LambdaCallback(on_train_start=on_train_start, on_epoch_start=on_epoch_start, on_epoch_end=on_epoch_end, on_batch_end=on_batch_end)
        cbs = [me, oe, lg, ms, R]
        try:
            with contextlib.redirect_stdout(io.StringIO()):
                try:
                    call(st.fit, data, epochs=cfg["E"], starting_epoch=cfg["e0"], pos_batch_size=2, lr=0.1, callbacks=cbs, **kw)
                except Boom:
                    state["boom_at"] = state["cur"]
                first_len = (len(me), len(oe))
                if len(me):
                    _ = (me.a, me["b"], list(me.epochs), me.last)  # a user inspecting the records between two runs
                if len(oe):
                    _ = (oe.SigmaZ.mean, list(oe.epochs), oe.last)
                if cfg["mode"] == "single" and state["injected"]:
                    # the stop request persists: another fit() on the same objects must act at NO time - no record,
                    # no message, no file written or rewritten (in particular not the saver's `initial` file)
                    def files_now():
                        out_ = {}
                        for root_, _, fs_ in os.walk(d):
                            for f_ in fs_:
                                with open(os.path.join(root_, f_), "rb") as fh_:
                                    out_[os.path.relpath(os.path.join(root_, f_), d)] = (hashlib.sha256(fh_.read()).hexdigest(), os.stat(os.path.join(root_, f_)).st_mtime_ns)
                        return out_
                    before_ = (files_now(), len(me), len(oe), len(msgs), len(rec))
                    state["fit"] = 2
                    call(st.fit, data, epochs=cfg["E"] + 2, starting_epoch=cfg["e0"], pos_batch_size=2, lr=0.1, callbacks=cbs, **kw)
                    after_ = (files_now(), len(me), len(oe), len(msgs), len(rec))
                    state["fit"] = 0
                    if before_ != after_:
                        changed_ = sorted(k for k in set(before_[0]) | set(after_[0]) if before_[0].get(k) != after_[0].get(k))
                        out.append(("periodic:callbacks-acted-in-a-run-started-with-a-stop-pending", dict(files_changed=changed_, records=[list(before_[1:]), list(after_[1:])])))
                if cfg["mode"] != "single":
                    st.stop_training = False
                    if cfg["mode"] == "two-clear":
                        me.clear_history()
                        oe.clear_history()
                        if len(me) or len(oe) or me.last != {} or oe.last != {}:
                            out.append(("periodic:clear_history-leaves-records", dict(me=len(me), oe=len(oe), last=str(me.last))))
                    state["fit"] = 1
                    e1 = (state["boom_at"] if state.get("boom_at") else max(cfg["E"], cfg["e0"] - 1)) + 1
                    # after clear_history the second run has as many epochs as the first actually ran
                    # (same number of records again); otherwise two more epochs
                    n2 = max(len([r for r in rec if r["fit"] == 0]), 1) if cfg["mode"] == "two-clear" else 2
                    call(st.fit, data, epochs=e1 + n2 - 1, starting_epoch=e1, pos_batch_size=2, lr=0.1, callbacks=cbs, **kw)
        except LibRaised as e:
            return [(f"periodic:fit-raised:{e.kind}:{e.site}", dict(error=str(e), tb=e.tb))], 0
        nev = len(rec)
        # "the run": epochs starting_epoch..epochs of each fit call, cut short only by the injected stop
        for fi, (lo, hi) in enumerate([(cfg["e0"], cfg["E"])] + ([(e1, e1 + n2 - 1)] if cfg["mode"] != "single" else [])):
            got = [r["epoch"] for r in rec if r["fit"] == fi]
            want = list(range(lo, hi + 1))
            if fi == 0 and state.get("boom_at"):
                want = list(range(lo, state["boom_at"]))  # the failing epoch never reached its end
            if got != (want[:len(got)] if fi == 0 and state["injected"] else want):
                out.append(("periodic:run-epochs-differ-from-starting_epoch..epochs", dict(fit=fi, got=got, want=want)))
        keep = [r for r in rec if not (cfg["mode"] == "two-clear" and r["fit"] == 0)]

        def sched(p, rs):
            return [r for r in rs if r["epoch"] % p == 0]

        # ---- metric evaluator
        sm = sched(cfg["p1"], keep)
        ep_m = [r["epoch"] for r in sm]
        if list(me.epochs) != ep_m or len(me) != len(sm):
            out.append(("periodic:MetricEvaluator:acted-at-wrong-epochs", dict(got=list(map(int, me.epochs)), want=ep_m)))
        else:
            ok = True
            for i, r in enumerate(sm):
                ok = ok and feq(me.a[i], r["a"]) and me["a"][i] == me.a[i] and me.get_value("a", i) == me.a[i] and me.get_value("a", i - len(sm)) == me.a[i] \
                    and me.b[i] == 2.0 and me.get_value("b", i) == 2.0
            if len(sm):
                ok = ok and me.last == {"a": me.a[-1], "b": 2.0} and me.get_value("a") == me.a[-1] and feq(me.last["a"], sm[-1]["a"])
            ok = ok and me.names == ["a", "b"]
            if not ok:
                out.append(("periodic:MetricEvaluator:records-differ-from-values-computed-at-those-epochs", dict(a=list(map(float, me.a)) if len(sm) else [], want=[r["a"] for r in sm], last=str(me.last))))
            rows_csv = list(csv.DictReader(open(os.path.join(d, "m.csv"))))
            sm_all = sched(cfg["p1"], rec)
            if csv_epochs(rows_csv) != [r["epoch"] for r in sm_all] or any(not feq(sf(x.get("a")), r["a"]) or sf(x.get("b")) != 2.0 for x, r in zip(rows_csv, sm_all)):
                out.append(("periodic:MetricEvaluator:csv-log-differs", dict(rows=[r["epoch"] for r in rows_csv], want=[r["epoch"] for r in sm_all])))
        # ---- observable evaluator: statistics recomputed from captured chain states
        so = sched(cfg["p2"], keep)
        ep_o = [r["epoch"] for r in so]
        if list(oe.epochs) != ep_o or len(oe) != len(so):
            out.append(("periodic:ObservableEvaluator:acted-at-wrong-epochs", dict(got=list(map(int, oe.epochs)), want=ep_o)))
        else:
            so_all = sched(cfg["p2"], rec)
            if len(captured) != 2 * len(so_all):
                out.append(("periodic:ObservableEvaluator:number-of-sampling-calls", dict(calls=len(captured), evaluations=len(so_all))))
            else:
                off = len(so_all) - len(so)
                ok = True
                exp_rows = []
                for i, r in enumerate(so):
                    states_ = torch.cat(captured[2 * (i + off):2 * (i + off) + 2])
                    # two observables named "SigmaZ" were given: the documentation gives precedence to the later one
                    for name, ob in (("SigmaZ", O.SigmaZ(absolute=True)), (O.NeighbourInteraction(c=1).name, O.NeighbourInteraction(c=1))):
                        m, v, n = onepass([float(x) for x in ob.apply(st, states_).tolist()])
                        g = oe.get_value(name, i)
                        acc_ = getattr(oe, name) if name == "SigmaZ" else oe[name]
                        ok = ok and feq(g["mean"], m) and feq(g["variance"], v) and g["num_samples"] == n and feq(g["std_error"], math.sqrt(v / n)) \
                            and acc_.mean[i] == g["mean"] and acc_.means[i] == g["mean"] and acc_["variance"][i] == g["variance"] and acc_.variances[i] == g["variance"] \
                            and acc_.std_errors[i] == g["std_error"] and acc_.num_samples[i] == n and oe.get_value(name, i - len(so)) == g
                    exp_rows.append(r["epoch"])
                if len(so):
                    ok = ok and oe.last == oe.past_values[-1][1] if hasattr(oe, "past_values") else ok
                    ok = ok and oe.get_value("SigmaZ") == oe.get_value("SigmaZ", len(so) - 1) and oe.last["SigmaZ"] == oe.get_value("SigmaZ")
                ok = ok and oe.names == ["SigmaZ", O.NeighbourInteraction(c=1).name]
                if not ok:
                    out.append(("periodic:ObservableEvaluator:records-differ-from-statistics-of-drawn-samples", dict(epochs=ep_o)))
                rows_csv = list(csv.DictReader(open(os.path.join(d, "o.csv"))))
                if csv_epochs(rows_csv) != [r["epoch"] for r in so_all]:
                    out.append(("periodic:ObservableEvaluator:csv-log-differs", dict(rows=[r["epoch"] for r in rows_csv], want=[r["epoch"] for r in so_all])))
                else:
                    # every cell of every row written in the (last) run, for EVERY observable
                    for i in range(len(so)):
                        row = rows_csv[len(rows_csv) - len(so) + i]
                        for name in ("SigmaZ", O.NeighbourInteraction(c=1).name):
                            g = oe.get_value(name, i)
                            if not all(feq(sf(row.get(f"{name}_{k_}")), g[k_]) for k_ in ("mean", "variance", "std_error")):
                                out.append(("periodic:ObservableEvaluator:csv-log-differs", dict(row=dict(row), observable=name)))
                                break
                        else:
                            continue
                        break
        # ---- logger
        if default_msg:
            want_msgs = ["Epoch " + str(r["epoch"]) + ": " + str({"tagv": 7}) for r in sched(cfg["pl"], rec)]
        else:
            want_msgs = [f"{r['epoch']}:{[('tagv', 7)]}" for r in sched(cfg["pl"], rec)]
        if msgs != want_msgs:
            out.append(("periodic:Logger:messages-differ-from-schedule", dict(got=msgs, want=want_msgs)))
        # ---- model saver
        svdir = os.path.join(d, "sv")
        files = sorted(os.listdir(svdir)) if os.path.isdir(svdir) else []
        ss = sched(cfg["ps"], rec)
        last_by_epoch = {}
        for r in ss:
            last_by_epoch[r["epoch"]] = r
        n_fits = 1 if cfg["mode"] == "single" else 2
        started = [f for f in range(n_fits) if ("initial", f) in snaps]
        wantf = sorted([f"ep{e}.pt" for e in last_by_epoch] + (["epinitial.pt"] if cfg["save_init"] and started else []))
        if files != wantf:
            out.append(("periodic:ModelSaver:files-differ-from-schedule", dict(files=files, want=wantf)))
        else:
            for f in files:
                key = f[2:-3]
                path = os.path.join(svdir, f)
                sd = torch.load(path)
                if key == "initial":
                    want_params = snaps[("initial", started[-1])]
                    ep_md = 0
                else:
                    want_params = last_by_epoch[int(key)]["params"]
                    ep_md = int(key)
                expmd = {"none": {}, "dict": {"note": "x"}, "callable": {"epoch": ep_md}}[cfg["md"]]
                if cfg["mdonly"]:
                    if sd != expmd:
                        out.append(("periodic:ModelSaver:metadata-only-file-content", dict(file=f, got=str(sd), want=expmd)))
                        break
                else:
                    m2 = type(st).autoload(path, gpu=False)
                    got = [p for net in m2.networks for p in getattr(m2, net).parameters()]
                    if len(got) != len(want_params) or any(not torch.equal(a_, b_) for a_, b_ in zip(got, want_params)):
                        out.append(("periodic:ModelSaver:file-does-not-load-back-to-that-epochs-parameters", dict(file=f)))
                        break
                    extra = {k_: v_ for k_, v_ in sd.items() if k_ not in st.networks and k_ != "unitary_dict"}
                    if extra != expmd:
                        out.append(("periodic:ModelSaver:metadata-differs", dict(file=f, got=str(extra), want=expmd)))
                        break
        return out, nev
    finally:
        os.chdir(HOME)  # (a relative-folder configuration changed the working directory)
        shutil.rmtree(d, ignore_errors=True)


def explore(acc, cfg):
    stats = T.Stats()
    sigs = set()
    with RngGuard("observe"):
        for tp, res in T.explore(lambda t: run_history(cfg, t), bound=1, stats=stats):
            viols, nev = res
            acc.ev(1, nontrivial=nev > 0)
            acc.transitions += nev
            if not viols:
                acc.traces += 1
            acc.outcome(sha([cfg["p1"], cfg["p2"], cfg["e0"], cfg["E"], tp.choices, nev]))
            for sig, detail in viols:
                if sig not in sigs:
                    sigs.add(sig)
                    acc.viol(sig, dict(cfg, tape=tp.choices), detail=detail)
    acc.states += stats.nodes
    acc.choice_points += stats.choice_points


def run_item(item):
    acc = Acc()
    for cfg in item["configs"]:
        explore(acc, cfg)
    acc.sample(dict(item["configs"][0], stop="every batch/epoch end"), cap=1)
    return acc


def replay(case):
    acc = Acc()
    cfg = {k: case[k] for k in ("kind", "p1", "p2", "pl", "ps", "e0", "E", "mode", "md", "mdonly", "save_init")}
    tp, (viols, nev) = T.replay(lambda t: run_history(cfg, t), case["tape"])
    acc.ev(1)
    for sig, detail in viols:
        acc.viol(sig, case, detail=detail)
    return acc
