"""C10 - fidelity, KL divergence and NLL report the quantities they are named for.

E3 lattice: state types x sizes x parameter patterns x target alphabet x every basis string / pair of
strings x target forms x sample multisets, against numpy fidelity / KL / NLL from the definitions.
"""
import itertools
import math
import numpy as np
import torch

from ..common import lib, call, LibRaised, build_state, param_assignments, close, sha, tbits, pattern, training_statistics
from ..engine.acc import Acc
from ..ref import models as R
from .c04 import c2t, gen_vec, gen_psd

ID = "C10"
ENGINE_NAME = "E3 input lattice"
RULE = ("one evaluation = one call of fidelity / KL / NLL on the real code for a (state, target, bases, target form) or (state, "
        "sample multiset, per-sample bases) tuple, compared with the definition in numpy; non-trivial = target differs from the "
        "model state or a basis string contains a rotated site; distinct = distinct argument tuple")
ASSUMPTIONS = ["parameter magnitudes <= 1.7 so every Born probability stays inside probs_to_logits' clamp [eps, 1-eps]",
               "positive states carry no unitary dictionary: bases=None (KL) and all-Z sample bases (NLL) are their whole domain",
               "mixed-state fidelity compared to 1e-6 (the library takes square roots of eigenvalues that are zero up to rounding: sqrt(1e-16) ~ 1e-8 per null direction), everything else to 1e-9"]
TOL = 1e-9


def archs(tier):
    out = []
    for n in (1, 2, 3):
        out += [("positive", [n, 2]), ("complex", [n, 2]), ("mixed", [n, 2, 2])]
    if tier == "thorough":
        out += [("complex", [3, 3]), ("mixed", [3, 1, 1]), ("positive", [4, 3]), ("complex", [4, 2]), ("mixed", [2, 3, 1])]
    return out


def bound(tier):
    return dict(architectures=[[k, a] for k, a in archs(tier)], patterns=2 if tier == "quick" else 4,
                targets=dict(pure=["own state", "own * e^{i theta}, theta in {0.7, pi, -2.1}", "every basis state", "uniform", "3 generic complex"],
                             mixed=["own rho", "maximally mixed", "pure projector", "2 generic full-rank non-real"]),
                bases="None; every single string; every unordered pair (n<=2); structured lists (n=3)",
                target_forms=["tensor", "dict of pre-rotated targets", "dict with keys in another order than bases"], nll="multisets of <= 3 rows from a 5-row pool, per-sample bases")


def plan(tier, seed):
    items = []
    for kind, arch in archs(tier):
        for q in range(2 if tier == "quick" else 4):
            items.append(dict(kind=kind, arch=arch, q=q))
    for kind, arch in (("positive", [2, 2]), ("complex", [2, 2]), ("mixed", [2, 2, 2])):
        items.append(dict(kind=kind, arch=arch, scope="stateful"))
    # strongly polarised / nearly pure states (visible biases around -10: eigenvalues and probabilities down to 1e-12):
    # fidelity only - KL / NLL of such states leave the library's documented logit clamp
    for kind, arch in (("mixed", [2, 2, 2]), ("mixed", [3, 1, 1]), ("mixed", [3, 2, 2]), ("complex", [3, 2])):
        items.append(dict(kind=kind, arch=arch, scope="polarised"))
    return items


def strings(n):
    return ["".join(s) for s in itertools.product("XYZ", repeat=n)]


def bases_lists(kind, n):
    if kind == "positive":
        return [None]
    ss = strings(n)
    out = [None] + [[s] for s in ss]
    if n <= 2:
        out += [[a, b] for a, b in itertools.combinations(ss, 2)]
    else:
        out += [ss[:3], ss[-3:], [ss[0], ss[13], ss[26]], ss]
    return out


def check_state(acc, kind, arch, params, st=None, history=None, only_fidelity=False):
    L = lib()
    ts = training_statistics()
    base = dict(kind=kind, arch=arch, params=params)
    if history is not None:
        base["history"] = history
    if only_fidelity:
        base["scope"] = "polarised"
    st = build_state(kind, arch, params) if st is None else st
    n = arch[0]
    D = 2 ** n
    from ..common import space_of
    space = space_of(st, n)

    def bad(sig, what, obs=None, exp=None, tol=TOL):
        acc.viol(sig, dict(base, **what), observed=obs, expected=exp, tol=tol)

    try:
        Z = float(call(st.normalization, space))
        if kind == "mixed":
            Rm = L.cplx.numpy(call(st.rho, space, space)) / Z
            g = gen_vec(D, 0)
            g = g / np.linalg.norm(g)
            S1 = gen_psd(D, 0) + 0.1 * np.eye(D)
            S1 = S1 / np.trace(S1).real
            S2 = gen_psd(D, 2) + 0.05 * np.eye(D)
            S2 = S2 / np.trace(S2).real
            targets = {"own": Rm, "maximally-mixed": np.eye(D, dtype=complex) / D, "projector": np.outer(g, g.conj()), "generic1": S1, "generic2": S2}
        else:
            psi = L.cplx.numpy(call(st.psi, space)) / math.sqrt(Z)
            Rm = np.outer(psi, psi.conj())
            targets = {"own": psi}
            for th in (0.7, math.pi, -2.1):
                targets[f"own*phase({th:.2f})"] = psi * np.exp(1j * th)
            for k in range(D):
                targets[f"e{k}"] = np.eye(D, dtype=complex)[k]
            targets["uniform"] = np.ones(D, dtype=complex) / math.sqrt(D)
            for j in range(3):
                g = gen_vec(D, j)
                targets[f"generic{j}"] = g / np.linalg.norm(g)
        Us = {b: R.basis_unitary(b) for b in strings(n)}

        def born_t(t, b):
            U = Us[b]
            return np.diag(U @ t @ U.conj().T).real if t.ndim == 2 else np.abs(U @ t) ** 2

        def born_m(b):
            U = Us[b]
            return np.diag(U @ Rm @ U.conj().T).real

        fid_own = None
        for tn, t in targets.items():
            # ---- fidelity
            what = dict(metric="fidelity", target=tn)
            f = call(ts.fidelity, st, c2t(t), space)
            f2 = call(ts.fidelity, st, c2t(t))  # space omitted
            acc.ev(2, nontrivial=not tn.startswith("own"))
            want = R.uhlmann(Rm, t) if kind == "mixed" else abs(np.vdot(t, psi)) ** 2
            ftol = 1e-6 if kind == "mixed" else TOL
            if not isinstance(f, float) or not math.isfinite(f):
                bad("fidelity:not-a-plain-real-number", what, repr(type(f)), "float")
            else:
                acc.err(abs(f - want) * (1e-2 if kind == "mixed" else 1))
                if not abs(f - want) <= ftol:
                    bad("fidelity:value", what, f, want, ftol)
                if not (-1e-9 <= f <= 1 + ftol):
                    bad("fidelity:outside-[0,1]", what, f, "[0,1]")
                if tn.startswith("own") and not abs(f - 1) <= ftol:
                    bad("fidelity:not-1-against-own-state" if tn == "own" else "fidelity:changed-by-global-phase", what, f, 1.0)
                if not (isinstance(f2, float) and abs(f2 - f) <= 1e-12):
                    bad("fidelity:space-omitted-differs", what, f2, f)
                if only_fidelity:
                    continue
                # documented deprecated keyword names and ignored extra keywords (MetricEvaluator passes
                # one keyword set to every metric)
                import warnings as _w
                with _w.catch_warnings():
                    _w.simplefilter("ignore")
                    dk = "target_rho" if kind == "mixed" else "target_psi"
                    f3 = call(ts.fidelity, st, space=space, bases=["Z" * n], samples=None, **{dk: c2t(t)})
                    k3 = call(ts.KL, st, space=space, bases=None, unrelated=3, **{dk: c2t(t)})
                    k4 = call(ts.KL, st, c2t(t), space, bases=None)
                if not (isinstance(f3, float) and abs(f3 - f) <= 1e-12 and isinstance(k3, float) and isinstance(k4, float) and (abs(k3 - k4) <= 1e-12 or (k3 != k3 and k4 != k4))):
                    bad("metrics:deprecated-or-extra-keywords-change-the-result", what, [f3, k3], [f, k4])
            # ---- KL
            for bl in bases_lists(kind, n):
                for form in ("tensor", "dict", "dict-reordered"):
                    if bl is None and form != "tensor":
                        continue
                    if form == "dict-reordered" and len(bl) < 2:
                        continue
                    if bl is not None and len(bl) > 3 and tn not in ("own", "generic0", "generic1"):
                        continue
                    what = dict(metric="KL", target=tn, bases=bl, form=form)
                    bs = bl or ["Z" * n]
                    want = sum(R.kl(born_t(t, b), born_m(b)) for b in bs) / len(bs)
                    if form in ("dict", "dict-reordered"):
                        order = bl if form == "dict" else bl[::-1]  # key order of the dict must not matter
                        tgt = {b: c2t(Us[b] @ t @ Us[b].conj().T if t.ndim == 2 else Us[b] @ t) for b in order}
                        got = call(ts.KL, st, tgt, space, bases=bl)
                    else:
                        got = call(ts.KL, st, c2t(t), space, bases=bl)
                        if tn in ("own", "generic0", "generic1") and (bl is None or len(bl) == 1):
                            got_ns = call(ts.KL, st, c2t(t), bases=bl)  # space omitted
                            if not (isinstance(got_ns, float) and isinstance(got, float) and abs(got_ns - got) <= 1e-12):
                                bad("KL:space-omitted-differs", what, got_ns, got)
                    acc.ev(1, nontrivial=True)
                    sig_q = f"{'bases-none' if bl is None else 'bases'}:{'mixed' if kind == 'mixed' else 'pure'}:{form}"
                    if not isinstance(got, float) or not math.isfinite(got):
                        bad("KL:not-a-plain-real-number:" + sig_q, what, repr(type(got)) + repr(got), "float")
                        continue
                    acc.err(abs(got - want))
                    if not abs(got - want) <= TOL * max(1, abs(want)):
                        bad("KL:value:" + sig_q, what, got, want)
                    elif got < -1e-12:
                        bad("KL:negative:" + sig_q, what, got, ">= 0")
                    elif tn == "own" and abs(got) > TOL:
                        bad("KL:not-zero-against-own-state:" + sig_q, what, got, 0.0)
        # ---- NLL
        ss = strings(n)
        pool = [(0, "Z" * n), (D - 1, ss[0]), (1 % D, ss[len(ss) // 2]), (0, "Z" * n), (D // 2, ss[-2] if len(ss) > 1 else ss[0])]
        for r in (1, 2, 3):
            for rows in itertools.combinations_with_replacement(range(len(pool)), r):
                sam = space[[pool[i][0] for i in rows]]
                modes = ["none", "allZ"] if kind == "positive" else ["none", "bases"]
                for mode in modes:
                    if mode == "none":
                        bb, bs = None, ["Z" * n] * r
                    elif mode == "allZ":
                        bb, bs = np.array([list("Z" * n)] * r), ["Z" * n] * r
                    else:
                        bs = [pool[i][1] for i in rows]
                        bb = np.array([list(b) for b in bs])
                    want = -sum(math.log(born_m(b)[pool[i][0]]) for i, b in zip(rows, bs)) / r
                    got = call(ts.NLL, st, sam, space, sample_bases=bb)
                    if r == 2:
                        got_ns = call(ts.NLL, st, sam, sample_bases=bb)  # space omitted
                        if not (type(got_ns) is type(got) and abs(float(got_ns) - float(got)) <= 1e-12):
                            bad("NLL:space-omitted-differs", dict(metric="NLL", rows=[pool[i] for i in rows], mode=mode), got_ns, got)
                    acc.ev(1, nontrivial=mode == "bases")
                    what = dict(metric="NLL", rows=[pool[i] for i in rows], mode=mode)
                    if not isinstance(got, float):
                        bad("NLL:not-a-plain-real-number:" + ("sample_bases-given" if bb is not None else "sample_bases-none"), what, repr(type(got)), "float")
                        try:
                            got = float(got)
                        except Exception:  # noqa: BLE001
                            continue
                    acc.err(abs(got - want))
                    if not abs(got - want) <= TOL * max(1, abs(want)):
                        bad("NLL:value:" + ("sample_bases-given" if bb is not None else "sample_bases-none"), what, got, want)
        acc.outcome(sha(np.round(Rm, 6)))
    except LibRaised as e:
        acc.viol(f"metric:raised:{e.kind}:{e.site}", base, observed=e.tb)


def run_stateful(acc, kind, arch):
    from ..common import update_params, UPDATE_STYLES
    from .c05 import stateful_sequence
    seq = stateful_sequence(kind, arch)
    # an earlier, unrelated call that overrides default letters must not leak into models built afterwards
    lib().unitaries.create_dict(X=c2t(R.CUSTOM_U["S"]), Y=c2t(R.CUSTOM_U["G"]))
    d_ = lib().unitaries.create_dict()
    d_["X"] = c2t(R.CUSTOM_U["G"])
    st = build_state(kind, arch, seq[0])
    check_state(acc, kind, arch, seq[0], st=st, history=[])
    hist = []
    for i, style in enumerate(["reinit", "copy_", "load_state_dict", "reinit"]):
        hist = hist + [dict(update=style, to_pattern=i + 1)]
        update_params(st, seq[i + 1], style)
        check_state(acc, kind, arch, seq[i + 1], st=st, history=hist)


def polarised_params(kind, arch, q):
    from ..common import pattern, net_sizes, aux_bias_slice
    sizes = net_sizes(kind, arch)
    ps = [pattern(m, q, r) for r, m in enumerate(sizes)]
    nv, nh = arch[0], arch[1]
    off = nv * nh + (nv * arch[2] if kind == "mixed" else 0)
    for j in range(nv):
        ps[0][off + j] = [-10.0, -11.0, -9.5, -10.5][j % 4] * (1 if q % 2 == 0 else -1)
    if kind == "mixed":
        sl = aux_bias_slice(arch)
        for t in range(sl.start, sl.stop):
            ps[1][t] = 0.0
    return ps


def run_item(item):
    acc = Acc()
    kind, arch = item["kind"], item["arch"]
    if item.get("scope") == "polarised":
        for q in range(2):
            params = polarised_params(kind, arch, q)
            check_state(acc, kind, arch, params, only_fidelity=True)
            acc.sample(dict(kind=kind, arch=arch, params=params, scope="polarised", metrics=["fidelity"]), cap=1)
        acc.states = acc.transitions = acc.traces = acc.evaluations
        return acc
    if item.get("scope") == "stateful":
        run_stateful(acc, kind, arch)
        acc.sample(dict(kind=kind, arch=arch, scope="stateful"), cap=1)
        acc.states = acc.transitions = acc.traces = acc.evaluations
        return acc
    for tag, params in param_assignments(kind, arch, npat=1, dev=0, q0=item["q"]):
        check_state(acc, kind, arch, params)
        acc.sample(dict(kind=kind, arch=arch, params=params, metrics=["fidelity", "KL", "NLL"]), cap=1)
    acc.states = acc.evaluations
    acc.transitions = acc.evaluations
    acc.traces = acc.evaluations
    return acc


def replay(case):
    acc = Acc()
    if case.get("history"):
        run_stateful(acc, case["kind"], case["arch"])
        return acc
    check_state(acc, case["kind"], case["arch"], case["params"], only_fidelity=case.get("scope") == "polarised")
    return acc
