"""C09 - the swap estimator measures the purity of the reduced state.

E3 lattice: every region A (every accepted form) x every ordered pair of basis states, weighted
exactly by p(s1)p(s2), against tr(rho_A^2) from an einsum partial trace.
"""
import itertools
import numpy as np
import torch

from ..common import lib, call, LibRaised, build_state, param_assignments, close, sha, tbits
from ..engine.acc import Acc
from ..ref import models as R
from .c08 import rho_hat

ID = "C09"
ENGINE_NAME = "E3 input lattice"
RULE = ("one case = (state type, architecture, parameter assignment, region A, form of A); every ORDERED pair of basis states is "
        "evaluated (two-row batches; three-row a,b,a layouts for the alternative region forms) and the p(s1)p(s2)-weighted sum "
        "compared with tr(rho_A^2); pairing is checked on batches of 1, 3, 4, 5 distinct rows; non-trivial = A neither empty "
        "nor full; distinct = distinct (type, arch, parameters, A, form)")
ASSUMPTIONS = ["pi and rho_hat from the library's own probability / psi / rho (C01/C02)",
               "either cyclic pairing direction is accepted (the property only demands a cyclic neighbour)"]
TOL = 1e-9


def archs(tier):
    nmax = 3 if tier == "quick" else 4
    out = []
    for n in range(1, nmax + 1):
        out += [("positive", [n, n + 1]), ("complex", [n, 2]), ("mixed", [n, 2, 2]), ("mixed", [n, 1, 1])]
    return out


def bound(tier):
    return dict(architectures=[[k, a] for k, a in archs(tier)], patterns=3 if tier == "quick" else 5, deviations="1 (values 0,+-7) on n<=%d" % (2 if tier == "quick" else 3),
                regions="all 2^n subsets, as list / numpy int array / long tensor / int (singletons)",
                pairs="all ordered pairs of basis states")


def plan(tier, seed):
    items = []
    for kind, arch in archs(tier):
        for q in range(3 if tier == "quick" else 5):
            items.append(dict(kind=kind, arch=arch, q=q, dev=1 if arch[0] <= (2 if tier == "quick" else 3) else 0))
    for kind, arch in (("positive", [2, 3]), ("complex", [2, 2]), ("mixed", [2, 2, 2]), ("mixed", [2, 1, 1])):
        items.append(dict(kind=kind, arch=arch, scope="stateful"))
    # strongly polarised states (visible biases around +-10: basis-state probabilities down to 1e-12 and below)
    for kind, arch in (("mixed", [3, 1, 1]), ("mixed", [2, 2, 2]), ("mixed", [3, 2, 2]), ("complex", [3, 2]), ("positive", [3, 2])):
        items.append(dict(kind=kind, arch=arch, scope="polarised"))
    return items


def forms(A):
    out = [("list", list(A)), ("ndarray", np.array(list(A), dtype=int)), ("tensor", torch.tensor(list(A), dtype=torch.long))]
    if len(A) == 1:
        out.append(("int", int(A[0])))
    return out


def swap_ref_table(kind, amp, A, n):
    """reference per-pair value  Re[ w(s1'|s1) w(s2'|s2) ]  for all ordered pairs (s1, s2), from
    the normalised state (amp = psi vector or rho matrix)"""
    D = 2 ** n
    B = R.bits(n).astype(int)
    tab = np.zeros((D, D))
    for i in range(D):
        for j in range(D):
            s1, s2 = B[i].copy(), B[j].copy()
            s1p, s2p = s1.copy(), s2.copy()
            for a in A:
                s1p[a], s2p[a] = s2[a], s1[a]
            i1, i2 = R.index_of(s1p), R.index_of(s2p)
            if kind == "mixed":
                w = amp[i1, i] * amp[i2, j] / (amp[i, i] * amp[j, j])
            else:
                w = amp[i1] * amp[i2] / (amp[i] * amp[j])
            tab[i, j] = np.real(w)
    return tab


def check_case(acc, kind, arch, params, st=None):
    L = lib()
    SWAP = L.observables.SWAP
    st = build_state(kind, arch, params) if st is None else st
    n = arch[0]
    D = 2 ** n
    space = tbits(n)
    base = dict(kind=kind, arch=arch, params=params)

    def bad(sig, A, form, obs=None, exp=None, detail=None):
        acc.viol(sig, dict(base, A=list(A), form=form), observed=obs, expected=exp, detail=detail, tol=TOL)

    try:
        rho, Z = rho_hat(st, kind, space)
        p = call(st.probability, space).numpy() / Z
        amp = rho if kind == "mixed" else lib().cplx.numpy(call(st.psi, space)) / np.sqrt(Z)
        est = {}
        for mask in range(2 ** n):
            A = [i for i in range(n) if mask >> (n - 1 - i) & 1]
            rA = R.partial_trace_keep(rho, A, n)
            purity = float(np.trace(rA @ rA).real)
            tab = swap_ref_table(kind, amp, A, n)
            for fname, Af in forms(A):
                acc.ev(1, nontrivial=0 < len(A) < n)
                S = SWAP(Af)
                vals = np.zeros((D, D))
                if fname == "list" and n <= 2:
                    for i in range(D):
                        for j in range(D):
                            b = torch.stack([space[i], space[j]])
                            b0 = b.clone()
                            r = call(S.apply, st, b)
                            acc.count("applies")
                            if not torch.equal(b, b0):
                                bad("swap:batch-modified", A, fname, b, b0)
                                return
                            if r.dim() != 1 or r.shape[0] != 2:
                                bad("swap:output-shape", A, fname, list(r.shape), [2])
                                return
                            vals[i, j] = float(r[0])
                            if not close(float(r[1]), tab[j, i], TOL):
                                bad("swap:second-row-not-paired-with-first", A, fname, float(r[1]), tab[j, i], detail=dict(i=i, j=j))
                                return
                else:
                    # rows (a, b, a): the middle row has the same neighbour on both sides
                    ii, jj = np.meshgrid(range(D), range(D), indexing="ij")
                    ii, jj = ii.reshape(-1), jj.reshape(-1)
                    rows = np.stack([jj, ii, jj], 1).reshape(-1)
                    b = space[rows]
                    b0 = b.clone()
                    r = call(S.apply, st, b)
                    acc.count("applies")
                    if not torch.equal(b, b0):
                        bad("swap:batch-modified", A, fname, None, None)
                        return
                    if r.dim() != 1 or r.shape[0] != 3 * D * D:
                        bad("swap:output-shape", A, fname, list(r.shape), [3 * D * D])
                        return
                    vals = r.numpy()[1::3].reshape(D, D)
                if not close(vals, tab, TOL):
                    bad("swap:pair-value", A, fname, vals, tab)
                    return
                e = float((p[:, None] * p[None, :] * vals).sum())
                acc.err(abs(e - purity))
                if not abs(e - purity) <= TOL:
                    bad("swap:expectation-differs-from-reduced-purity", A, fname, e, purity)
                    return
                est[(mask, fname)] = e
            e = est[(mask, "list")]
            if -np.log(e) < -1e-12:
                bad("swap:negative-renyi-entropy", A, "list", -np.log(e), ">= 0")
        if kind != "mixed":
            full = 2 ** n - 1
            for mask in range(2 ** n):
                if not close(est[(mask, "list")], est[(full ^ mask, "list")], TOL):
                    bad("swap:region-complement-asymmetry-for-pure-state", [mask], "list", est[(mask, "list")], est[(full ^ mask, "list")])
            if not (close(est[(0, "list")], 1.0, TOL) and close(est[(full, "list")], 1.0, TOL)):
                bad("swap:empty-or-full-region-entropy-not-zero", [], "list", [est[(0, "list")], est[(full, "list")]], [1.0, 1.0])
        # pairing rule on batches of 1, 3, 4, 5 rows: a non-zero cyclic shift d pairs every row
        A = [0] if n >= 1 else []
        tabA = swap_ref_table(kind, amp, A, n)
        for Bsz in (1, 3, 4, 5):
            idx = [(3 * t + 1) % D for t in range(Bsz)] if D >= Bsz else [t % D for t in range(Bsz)]
            b = space[idx]
            b0 = b.clone()
            r = call(SWAP(A).apply, st, b).numpy()
            acc.count("applies")
            ok = False
            for d in ([0] if Bsz == 1 else range(1, Bsz)):
                if close(r, np.array([tabA[idx[i], idx[(i + d) % Bsz]] for i in range(Bsz)]), TOL):
                    ok = True
            if not ok or not torch.equal(b, b0):
                bad("swap:not-paired-with-a-cyclic-neighbour", A, "list", r, None, detail=dict(batch_rows=idx))
        acc.outcome(sha(np.round(p, 6)))
    except LibRaised as e:
        acc.viol(f"swap:raised:{e.kind}", base, observed=e.tb)


def run_stateful(acc, kind, arch):
    """non-initial states: one LIVE model evaluated, updated (in place / reinitialised), evaluated again"""
    from ..common import update_params, UPDATE_STYLES
    from .c05 import stateful_sequence
    seq = stateful_sequence(kind, arch)
    st = build_state(kind, arch, seq[0])
    check_case(acc, kind, arch, seq[0], st=st)
    for i, style in enumerate(UPDATE_STYLES):
        update_params(st, seq[i + 1], style)
        n0 = acc.n_violations
        check_case(acc, kind, arch, seq[i + 1], st=st)
        if acc.n_violations > n0:
            for v in acc.violations:
                v["case"]["history"] = [dict(update=x) for x in UPDATE_STYLES[: i + 1]]
            return


def run_item(item):
    acc = Acc()
    kind, arch = item["kind"], item["arch"]
    if item.get("scope") == "stateful":
        run_stateful(acc, kind, arch)
        acc.sample(dict(kind=kind, arch=arch, scope="stateful"), cap=1)
        acc.states = acc.evaluations
        acc.transitions = acc.evaluations * 4 ** arch[0]
        acc.traces = acc.counters.get("applies", 0)
        return acc
    if item.get("scope") == "polarised":
        from .c10 import polarised_params
        for q in range(2):
            params = polarised_params(kind, arch, q)
            check_case(acc, kind, arch, params)
            acc.sample(dict(kind=kind, arch=arch, params=params, scope="polarised"), cap=1)
        acc.states = acc.evaluations
        acc.transitions = acc.evaluations * 4 ** arch[0]
        acc.traces = acc.counters.get("applies", 0)
        return acc
    first = True
    for tag, params in param_assignments(kind, arch, npat=1, dev=item["dev"], ext=[-7.0, 0.0, 7.0], q0=item["q"]):
        check_case(acc, kind, arch, params)
        if first:
            acc.sample(dict(kind=kind, arch=arch, tag=list(tag), params=params, regions="all subsets", pairs="all ordered"), cap=1)
            first = False
    acc.states = acc.evaluations
    acc.transitions = acc.evaluations * 4 ** arch[0]
    acc.traces = acc.counters.get("applies", 0)
    return acc


def replay(case):
    acc = Acc()
    if case.get("history"):
        run_stateful(acc, case["kind"], case["arch"])
        return acc
    check_case(acc, case["kind"], case["arch"], case["params"])
    return acc
