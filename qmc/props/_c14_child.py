"""Child interpreter for C14's fresh-process layer: one seeded history, printed as a hash.

Run as `python -m qmc.props._c14_child <kind> <seed>` with its own PYTHONHASHSEED: the string-hash salt is one
more random source of the process that a seeded run must not depend on (set / dict iteration order)."""
import json
import sys

import numpy as np
import torch

from ..common import lib
from .c14 import Hx, params

DATA4 = torch.tensor([[0.0, 1.0], [1.0, 1.0], [1.0, 0.0], [0.0, 0.0], [1.0, 1.0]], dtype=torch.double)
BASES4 = np.array([list("ZZ"), list("XY"), list("YZ"), list("XX"), list("ZY")])


def main():
    kind, seed = sys.argv[1], int(sys.argv[2])
    L = lib()
    O = L.observables
    L.qucumber.set_random_seed(seed, cpu=True, gpu=False, quiet=True)
    st = L.types[kind](2, gpu=False)
    kw = dict(input_bases=BASES4) if len(st.networks) > 1 else {}
    out = [params(st)]
    st.fit(DATA4, epochs=2, pos_batch_size=5, k=1, lr=0.1, **kw)  # one batch holding five distinct bases
    out.append(params(st))
    st.fit(DATA4, epochs=1, pos_batch_size=3, neg_batch_size=2, k=1, lr=0.1, **kw)
    out.append(params(st))
    out.append(Hx(st.sample(k=2, num_samples=6)))
    out.append(Hx(O.System(O.SigmaZ(), O.SigmaX()).statistics(st, num_samples=4, num_chains=2, burn_in=1)))
    sp = st.generate_hilbert_space()
    out.append(Hx(st.gradient(DATA4, BASES4) if kw else st.gradient(DATA4)))
    out.append(Hx(st.compute_exact_gradients(DATA4, sp, bases_batch=BASES4 if kw else None)))
    print("C14CHILD " + json.dumps(out))


if __name__ == "__main__":
    main()
