"""Shared harness pieces for the properties that drive the real `fit` (C06, C07, C12, C17, C18, C20).
Only public seams are used: optimizer= / scheduler= / callbacks= arguments and instance-level
wrapping of public methods (fit looks them up through self)."""
import math
import numpy as np
import torch

from ..common import lib, EngineError, pattern, net_sizes, build_state, param_assignments
from ..engine.env import PASS, parse_randint, nth_permutation, _deliver

ROWS = {1: [[0.0], [1.0]], 2: [[0.0, 1.0], [1.0, 1.0], [1.0, 0.0], [0.0, 0.0]], 3: [[0.0, 1.0, 1.0], [1.0, 0.0, 1.0], [1.0, 1.0, 0.0], [0.0, 0.0, 1.0]]}
BASES = {1: ["Z", "X", "Z", "Y"], 2: ["ZZ", "XY", "ZZ", "YZ", "ZX", "ZZ"], 3: ["ZZZ", "XYZ", "ZZZ", "YZX", "ZXZ", "ZZZ"]}


def dataset(n, N, variant="distinct"):
    """rows (list of lists) and basis strings; always contains an all-Z row first"""
    pool = ROWS[n]
    if variant == "equal":
        rows = [list(pool[0]) for _ in range(N)]
    else:
        rows = [list(pool[i % len(pool)]) for i in range(N)]
        if variant == "duplicates" and N >= 3:
            rows[2] = list(rows[0])
    bases = [BASES[n][i % len(BASES[n])] for i in range(N)]
    if variant == "no-z":
        # no row measured entirely in the reference basis: there is nothing the negative-phase chains may start from
        rot = [b for b in BASES[n] if set(b) != {"Z"}]
        bases = [rot[i % len(rot)] for i in range(N)]
    return rows, bases


def as_form(rows, form):
    if form == "float64":
        return torch.tensor(rows, dtype=torch.double)
    if form == "float32":
        return torch.tensor(rows, dtype=torch.float32)
    if form == "numpy":
        return np.array(rows, dtype=float)
    if form == "list":
        return [list(r) for r in rows]
    raise EngineError(form)


def snapshot(x):
    if isinstance(x, torch.Tensor):
        return x.clone()
    if isinstance(x, np.ndarray):
        return x.copy()
    return [list(r) for r in x]


def same(a, b):
    if isinstance(a, torch.Tensor):
        return isinstance(b, torch.Tensor) and a.dtype == b.dtype and torch.equal(a, b)
    if isinstance(a, np.ndarray):
        return isinstance(b, np.ndarray) and a.dtype == b.dtype and np.array_equal(a, b)
    return a == b


def perm_menu(n):
    """alternatives offered for a randperm(n) answer: all n! for n<=4, otherwise identity, every
    single transposition, reversal and one rotation"""
    if n <= 4:
        return [nth_permutation(n, k) for k in range(math.factorial(n))]
    out = [list(range(n))]
    for i in range(n):
        for j in range(i + 1, n):
            p = list(range(n))
            p[i], p[j] = p[j], p[i]
            out.append(p)
    out.append(list(range(n - 1, -1, -1)))
    out.append(list(range(1, n)) + [0])
    return out


def randint_menu(lo, hi, m):
    span = hi - lo
    if span ** m <= 256:
        out = []
        for c in range(span ** m):
            d = []
            for _ in range(m):
                d.append(lo + c % span)
                c //= span
            out.append(d)
        return out
    ramp = [lo + (i % span) for i in range(m)]
    out = [[lo] * m, [hi - 1] * m, ramp, ramp[::-1]]
    for i in range(min(m, 6)):
        d = [lo] * m
        d[i] = hi - 1
        out.append(d)
    return out


class FitDecider:
    """randperm / randint answers from the tape (menus above), Bernoulli draws from a deterministic
    threshold script, randn passes through to the seeded generator (initialisation only)."""

    def __init__(self, tape, script=0, allow_randn=False):
        self.tape = tape
        self.script = script
        self.k = 0
        self.perms = []
        self.ints = []
        self.allow_randn = allow_randn
        self.small = False

    def _u(self):
        self.k += 1
        g = 0.6180339887498949 if self.script == 0 else 0.7548776662466927
        return (0.37 * (self.script + 1) + self.k * g) % 1.0

    def __call__(self, name, func, args, kwargs):
        if name == "bernoulli":
            p = args[0] if args else kwargs["input"]
            if not isinstance(p, torch.Tensor):
                return PASS
            u = torch.tensor([self._u() for _ in range(p.numel())], dtype=torch.double).reshape(p.shape)
            return _deliver((u < p.to(torch.double)).to(p.dtype), kwargs)
        if name == "randperm":
            n = int(args[0] if args else kwargs["n"])
            menu = perm_menu(n)
            c = self.tape.choose(len(menu), f"randperm({n})")
            self.perms.append(menu[c])
            return torch.tensor(menu[c], dtype=kwargs.get("dtype", torch.long))
        if name == "randint":
            lo, hi, size = parse_randint(args, kwargs)
            if hi <= lo:
                return PASS  # an empty range: torch itself refuses the call
            m = int(np.prod(size)) if len(size) else 1
            menu = randint_menu(lo, hi, m)
            if self.small:
                span = hi - lo
                ramp = [lo + (i % span) for i in range(m)]
                menu = []
                for d in ([lo] * m, [hi - 1] * m, ramp, ramp[::-1]):
                    if d not in menu:
                        menu.append(d)
            c = self.tape.choose(len(menu), f"randint({lo},{hi},{m})")
            self.ints.append(menu[c])
            return torch.tensor(menu[c], dtype=kwargs.get("dtype", torch.long)).reshape(tuple(size))
        if name == "randn" and self.allow_randn:
            return PASS
        if name in ("rand", "rand_like", "uniform_"):
            from ..engine.env import LAZY_UNIFORM
            return LAZY_UNIFORM  # a Bernoulli draw realised as `uniform < p`: decided at the comparison
        raise EngineError(f"random call {name} is not owned by the fit decider")


def make_recording_sgd(log):
    class RecSGD(torch.optim.SGD):
        def step(self, closure=None):
            ps = [p for g in self.param_groups for p in g["params"]]
            before = [p.detach().clone() for p in ps]
            grads = [None if p.grad is None else p.grad.detach().clone() for p in ps]
            lr = self.param_groups[0]["lr"]
            r = super().step(closure)
            log.append(dict(before=before, grads=grads, after=[p.detach().clone() for p in ps], lr=lr))
            return r

    return RecSGD


def make_counting_steplr(counter):
    class CountSched(torch.optim.lr_scheduler.StepLR):
        def step(self, *a, **k):
            counter.append(1)
            return super().step(*a, **k)

    return CountSched


def wrap_batches(st, seen, marker):
    """record every call of the public per-batch method (arguments cloned)"""
    orig = st.compute_batch_gradients

    def wrapper(k, *b, **kw):
        seen.append(dict(at=marker(), k=k, batch=[x.clone() if isinstance(x, torch.Tensor) else (x.copy() if isinstance(x, np.ndarray) else x) for x in b]))
        return orig(k, *b, **kw)

    st.compute_batch_gradients = wrapper
    return orig


def wrap_gibbs(st, chains):
    orig = st.rbm_am.gibbs_steps

    def wrapper(k, initial_state, overwrite=False):
        i0 = initial_state.clone()
        r = orig(k, initial_state, overwrite=overwrite)
        chains.append(dict(k=k, start=i0, end=r.clone()))
        return r

    st.rbm_am.gibbs_steps = wrapper
    return orig


def fresh_state(kind, n, q=0, arch=None):
    arch = arch or ([n, 2] if kind != "mixed" else [n, 2, 1])
    params = next(iter(param_assignments(kind, arch, npat=1, dev=0, q0=q)))[1]
    return build_state(kind, arch, params), arch, params
