"""C05 - Gibbs sampling targets exactly the distribution the model reports.

Three exact layers, no sampling anywhere:
 (i)   every conditional-probability method vs the conditionals of the reference joint distribution
 (ii)  E1: the sampler run under an owned Bernoulli seam; EVERY outcome sequence of k Gibbs steps from
       every start state is executed, path weights summed per end state = exact k-step law of the
       implementation, compared with (T_ref)^k
 (iii) pi T_ref = pi and detailed balance with pi = probability(space)/normalization as reported
"""
import numpy as np
import torch

from ..common import (lib, call, LibRaised, build_state, param_assignments, split_binary, split_purif, close,
                      maxerr, pattern, net_sizes, tbits, EngineError)
from ..engine.acc import Acc
from ..engine import tape as T
from ..engine.env import Owned, TapeDecider, RngGuard
from ..ref import models as R

ID = "C05"
ENGINE_NAME = "E1 choice-tape explorer + E3 lattice"
RULE = ("one evaluation = one complete execution of sample()/gibbs_steps() under a fully decided Bernoulli tape, or one "
        "(architecture, parameters) case of the conditional / detailed-balance layers; non-trivial = k >= 1 (at least one "
        "choice point) resp. non-zero biases; distinct = distinct (type, architecture, parameters, scenario, start, k, tape)")
ASSUMPTIONS = ["random calls intercepted by name through TorchFunctionMode; the guard proves no torch/numpy/random draw escaped",
               "Bernoulli draws are made with torch.bernoulli on the probabilities the conditional methods return"]
COUNTS = ("states = nodes of the Bernoulli choice trees (distinct tape prefixes) + lattice cases; transitions = tree edges + "
          "conditional evaluations; traces_validated_against_impl = complete sampler executions whose end state entered an "
          "exact k-step law that was compared with the reference kernel power")
TOL = 1e-9

TREES_QUICK = [
    ("positive", [2, 2], 3), ("complex", [2, 2], 2), ("positive", [3, 2], 2), ("positive", [2, 3], 2), ("complex", [3, 3], 1),
    ("positive", [3, 3], 2), ("positive", [1, 3], 3), ("positive", [3, 1], 2), ("positive", [1, 1], 4),
    ("mixed", [2, 2, 1], 2), ("mixed", [2, 1, 2], 2), ("mixed", [1, 2, 2], 2), ("mixed", [2, 2, 2], 1), ("mixed", [1, 1, 1], 3),
]
TREES_THOROUGH = TREES_QUICK + [
    ("positive", [3, 3], 3), ("positive", [4, 2], 2), ("positive", [2, 4], 2), ("complex", [3, 2], 2), ("mixed", [2, 2, 2], 2),
    ("mixed", [3, 1, 1], 2), ("mixed", [1, 3, 1], 2), ("mixed", [1, 1, 3], 2), ("positive", [4, 1], 3), ("positive", [1, 4], 3),
]


def bound(tier):
    return dict(path_enumeration=[dict(kind=k, arch=a, max_k=K) for k, a, K in (TREES_QUICK if tier == "quick" else TREES_THOROUGH)],
                scenarios=["sample(initial_state=v0) overwrite F/T", "gibbs_steps direct", "uniform random start",
                           "two-row batch", "chain continued across two calls (overwrite=True)", "1-D start state",
                           "start state = strided view of a wider array (sample / gibbs_steps)", "overwrite given as np.False_ / 0 / np.True_ / 1"],
                conditionals=dict(binary="nv,nh<=4", purification="nv,nh<=4 (quick 3), na<=3", parameters="3 patterns + 1-deviations"),
                deviation_bound=None)


def plan(tier, seed):
    items = [dict(layer="stream", kind=k_) for k_ in ("positive", "complex", "mixed")]
    trees = TREES_QUICK if tier == "quick" else TREES_THOROUGH
    for kind, arch, K in trees:
        D = 2 ** arch[0]
        for q in range(2):
            for start in range(D):
                items.append(dict(layer="tree", kind=kind, arch=arch, K=K, q=q, start=start))
            items.append(dict(layer="tree-extra", kind=kind, arch=arch, K=K, q=q))
    m = 4
    for nv in range(1, m + 1):
        for nh in range(1, m + 1):
            items.append(dict(layer="cond", kind="positive", arch=[nv, nh]))
            items.append(dict(layer="cond", kind="complex", arch=[nv, nh]))
    for kind, arch in (("positive", [2, 2]), ("complex", [2, 3]), ("mixed", [2, 1, 1]), ("mixed", [1, 2, 2]), ("mixed", [2, 2, 1]), ("positive", [3, 2])):
        items.append(dict(layer="stateful", kind=kind, arch=arch))
    mp = 3 if tier == "quick" else 4
    for nv in range(1, mp + 1):
        for nh in range(1, mp + 1):
            for na in range(1, 4):
                items.append(dict(layer="cond", kind="mixed", arch=[nv, nh, na]))
    return items


def ref_kernel(kind, arch, params):
    if kind == "mixed":
        Tm, _, _ = R.pur_kernel(*split_purif(params[0], arch))
        lp = R.pur_logp_v(*split_purif(params[0], arch))
    else:
        Tm, _, _ = R.rbm_kernel(*split_binary(params[0], arch))
        lp = R.rbm_logp(*split_binary(params[0], arch))
    return Tm, lp


def idx(row):
    return R.index_of(row.tolist())


def pattern_params(kind, arch, q):
    for tag, p in param_assignments(kind, arch, npat=1, dev=0, q0=q):
        return p


# ---------------------------------------------------------------------------
# layer (ii): the sampler as a choice tree


def run_tree(acc, st, case, scenario, k, start_rows, overwrite, Tm):
    """explore every Bernoulli outcome sequence of one scenario; returns exact law over end states"""
    D = Tm.shape[0]
    n = st.num_visible
    space = tbits(n)
    rows = len(start_rows) if start_rows is not None else (2 if scenario == "random-start-2" else 1)
    law = np.zeros([D] * rows)
    stats = T.Stats()
    flags = []

    # the flag given as another Python / numpy truth value (the result of a numpy comparison, 0 / 1)
    flag_forms = {"sample-npfalse": np.False_, "sample-zero": 0, "sample-nptrue": np.True_, "sample-one": 1}
    ow_arg = flag_forms.get(scenario, overwrite)
    if scenario in flag_forms:
        overwrite = bool(ow_arg)

    def body(tape):
        dec = TapeDecider(tape)
        with Owned(dec) as own:
            body.env = own
            if scenario == "sample" or scenario in flag_forms:
                start = space[start_rows].clone()
                keep = start.clone()
                r = st.sample(k=k, initial_state=start, overwrite=ow_arg)
            elif scenario == "gibbs":
                start = space[start_rows].clone()
                keep = start.clone()
                r = st.rbm_am.gibbs_steps(k, start, overwrite=overwrite)
            elif scenario in ("sample-strided", "gibbs-strided"):
                # the chain buffer is a strided VIEW of a larger array the caller owns (every second column):
                # in-place continuation must still reach the caller's memory
                wide = torch.full((len(start_rows), 2 * n), 7.0, dtype=torch.double)
                wide[:, ::2] = space[start_rows]
                start = wide[:, ::2]
                keep = start.clone()
                r = st.sample(k=k, initial_state=start, overwrite=overwrite) if scenario == "sample-strided" else st.rbm_am.gibbs_steps(k, start, overwrite=overwrite)
                if not bool((wide[:, 1::2] == 7.0).all()):
                    flags.append(("memory-outside-the-start-state-view-modified", tape.choices[:]))
            elif scenario == "sample-1d":
                start = space[start_rows[0]].clone()  # a single chain given as a 1-D vector
                keep = start.clone()
                r = st.sample(k=k, initial_state=start, overwrite=overwrite)
                if r.dim() != 1:
                    flags.append(("1d-start-does-not-give-1d-result", tape.choices[:]))
                r = r.reshape(1, -1)
                if not overwrite and not torch.equal(start, keep):
                    flags.append(("start-modified-without-overwrite", tape.choices[:]))
                if overwrite and not torch.equal(start.reshape(1, -1), r):
                    flags.append(("overwrite-did-not-update-in-place", tape.choices[:]))
                start = keep = None
            elif scenario == "random-start":
                start = keep = None
                r = st.sample(k=k, num_samples=1)
            elif scenario == "random-start-2":
                start = keep = None
                r = st.sample(k=k, num_samples=2)
            elif scenario == "continued":
                start = space[start_rows].clone()
                keep = start.clone()
                a = st.sample(k=k[0], initial_state=start)
                if not torch.equal(start, keep):
                    flags.append(("start-modified-without-overwrite", tape.choices[:]))
                r = st.sample(k=k[1], initial_state=a, overwrite=True)
                if r.data_ptr() != a.data_ptr() or not torch.equal(r, a):
                    flags.append(("overwrite-did-not-update-in-place", tape.choices[:]))
                start = keep = None
        # a unit drawn as `uniform < p` is exactly Bernoulli(p) only if the uniform variate carries p's precision
        for f in body.env.flags[:1]:
            flags.append(("conditional-not-exact:" + f.replace(" ", "-"), tape.choices[:]))
        # per-execution invariants
        if tuple(r.shape) != (rows, n) or not bool(((r == 0) | (r == 1)).all()):
            flags.append(("not-0/1-of-requested-shape", tape.choices[:]))
            return None
        if start is not None:
            if overwrite:
                if r.data_ptr() != start.data_ptr() or not torch.equal(start, r):
                    flags.append(("overwrite-did-not-update-in-place", tape.choices[:]))
            else:
                if not torch.equal(start, keep) or r.data_ptr() == start.data_ptr():
                    flags.append(("start-modified-without-overwrite", tape.choices[:]))
            if (k == 0) and not torch.equal(r, keep):
                flags.append(("k0-does-not-return-start", tape.choices[:]))
        return tuple(idx(x) for x in r)

    with RngGuard("decide"):
        for tp, end in T.explore(body, stats=stats):
            acc.ev(1, nontrivial=len(tp.choices) > 0)
            if end is not None:
                law[end] += tp.weight
                acc.outcome(f"{case['kind']}{case['arch']}:{end}")
    acc.states += stats.nodes
    acc.transitions += max(stats.nodes - 1, 0)
    acc.traces += stats.executions
    acc.choice_points += stats.choice_points
    acc.count("trees")
    for name, tp in flags[:3]:
        acc.viol(f"gibbs:{name}", dict(case, scenario=scenario, k=k, start=start_rows, overwrite=overwrite, tape=tp))
    return law


def expected_law(Tm, scenario, k, start_rows):
    D = Tm.shape[0]
    if scenario == "random-start":
        return (np.ones(D) / D) @ np.linalg.matrix_power(Tm, k)
    if scenario == "random-start-2":
        one = (np.ones(D) / D) @ np.linalg.matrix_power(Tm, k)
        return np.multiply.outer(one, one)
    kk = sum(k) if scenario == "continued" else k
    Tk = np.linalg.matrix_power(Tm, kk)
    out = Tk[start_rows[0]]
    for s in start_rows[1:]:
        out = np.multiply.outer(out, Tk[s])
    return out


def tree_case(acc, case, scenario, k, start_rows, overwrite, st=None):
    kind, arch, params = case["kind"], case["arch"], case["params"]
    st = build_state(kind, arch, params) if st is None else st
    Tm, _ = ref_kernel(kind, arch, params)
    try:
        law = run_tree(acc, st, case, scenario, k, start_rows, overwrite, Tm)
    except LibRaised as e:
        acc.viol(f"gibbs:raised:{e.kind}", dict(case, scenario=scenario, k=k, start=start_rows, overwrite=overwrite), observed=e.tb)
        return
    exp = expected_law(Tm, scenario, k, start_rows)
    e = float(np.abs(law - exp).max())
    acc.err(e)
    if not close(law, exp, TOL, at=1e-12):
        acc.viol("gibbs:k-step-law-differs-from-kernel-power", dict(case, scenario=scenario, k=k, start=start_rows, overwrite=overwrite),
                 observed=law, expected=exp, detail=dict(max_abs_diff=e), tol=TOL)


def run_stream(acc, kind):
    """successive sampling calls continue ONE seeded random stream: a call with k >= 1 (or a random start) must leave
    the global generator advanced - a call that restores the generator state on exit makes every later call replay
    the same noise (each single call looks exact, chains continued across calls are not)."""
    L = lib()
    arch = [2, 2] if kind != "mixed" else [2, 1, 1]
    st = build_state(kind, arch, pattern_params(kind, arch, 0))
    x = tbits(2)[[1, 2]].clone()
    for name, fn in (("sample(k=1, initial_state)", lambda: st.sample(k=1, initial_state=x)), ("sample(k=2, num_samples=3)", lambda: st.sample(k=2, num_samples=3)),
                     ("sample(k=0, num_samples=3)", lambda: st.sample(k=0, num_samples=3)), ("gibbs_steps(1)", lambda: st.rbm_am.gibbs_steps(1, x))):
        acc.ev(1, nontrivial=True)
        torch.manual_seed(17)
        g0 = torch.get_rng_state().clone()
        call(fn)
        g1 = torch.get_rng_state().clone()
        call(fn)
        g2 = torch.get_rng_state().clone()
        if torch.equal(g0, g1) or torch.equal(g1, g2):
            acc.viol("gibbs:sampling-call-leaves-the-seeded-generator-where-it-was", dict(kind=kind, layer="stream", call=name))
        acc.outcome("stream:" + kind + name)
    acc.states += 4
    acc.traces += 4


def run_tree_item(acc, item):
    kind, arch, K, q = item["kind"], item["arch"], item["K"], item["q"]
    params = pattern_params(kind, arch, q)
    case = dict(kind=kind, arch=arch, params=params)
    if item["layer"] == "tree":
        s = item["start"]
        for k in range(0, K + 1):
            tree_case(acc, case, "sample", k, [s], False)
        big = 2 ** sum(arch) >= 64
        tree_case(acc, case, "sample", K - 1 if (big and K > 1) else K, [s], True)
        tree_case(acc, case, "gibbs", 1 if big else min(K, 2), [s], True)
        tree_case(acc, case, "gibbs", 1, [s], False)
        tree_case(acc, case, "sample-1d", min(K, 2), [s], False)
        tree_case(acc, case, "sample-1d", 1, [s], True)
        tree_case(acc, case, "sample-strided", 1, [s], True)
        for sc_ in ("sample-npfalse", "sample-zero", "sample-nptrue", "sample-one"):
            tree_case(acc, case, sc_, 1, [s], None)
        tree_case(acc, case, "gibbs-strided", 1, [s], True)
        tree_case(acc, case, "sample-strided", 1, [s], False)
        if K >= 2:
            tree_case(acc, case, "continued", [1, 1], [s], None)
        if K >= 3:
            tree_case(acc, case, "continued", [2, 1], [s], None)
        acc.sample(dict(case, scenario="sample", k=K, start=[s], overwrite=False, executions_in_tree="all Bernoulli outcome sequences"), cap=1)
    else:
        D = 2 ** arch[0]
        tree_case(acc, case, "random-start", 1, None, None)
        tree_case(acc, case, "random-start", 0, None, None)
        if 2 ** (2 * sum(arch)) * 4 ** arch[0] <= 5000:
            tree_case(acc, case, "random-start-2", 1, None, None)
        if K >= 2 and sum(arch) <= 5:
            tree_case(acc, case, "random-start", 2, None, None)
        # two-row batches: the law must factorise (no cross-row leakage through shared buffers)
        per_step = 2 ** (sum(arch) * 2)
        if per_step <= 4096:
            pairs = [(0, D - 1), (D - 1, 0), (1 % D, 1 % D)]
            for a, b in pairs:
                tree_case(acc, case, "sample", 1, [a, b], False)
            if per_step <= 256:
                tree_case(acc, case, "sample", 1, [0, D - 1], True)


# ---------------------------------------------------------------------------
# layers (i) and (iii)


def cond_case(acc, kind, arch, params, st=None, history=None):
    case = dict(kind=kind, arch=arch, params=params, layer="cond")
    if history is not None:
        case["history"] = history
    st = build_state(kind, arch, params) if st is None else st
    rbm = st.rbm_am
    n = arch[0]
    V = tbits(n)
    acc.ev(1)

    def bad(sig, obs=None, exp=None, detail=None):
        acc.viol(sig, case, observed=obs, expected=exp, detail=detail, tol=TOL)

    try:
        if kind == "mixed":
            lam = split_purif(params[0], arch)
            ph, pa, pv = R.pur_unit_conditionals(*lam)
            H, A = tbits(arch[1]), tbits(arch[2])
            o_h = call(rbm.prob_h_given_v, V).numpy()
            o_a = call(rbm.prob_a_given_v, V).numpy()
            if not close(o_h, ph, TOL):
                bad("cond:p(h|v)", o_h, ph)
            if not close(o_a, pa, TOL):
                bad("cond:p(a|v)", o_a, pa)
            acc.err(max(maxerr(o_h, ph), maxerr(o_a, pa)))
            # every (h,a) pair, batched and 1-D
            HH = H.repeat_interleave(len(A), 0)
            AA = A.repeat(len(H), 1)
            o_v = call(rbm.prob_v_given_ha, HH, AA).numpy().reshape(len(H), len(A), n)
            if not close(o_v, pv, TOL):
                bad("cond:p(v|h,a)", o_v, pv)
            acc.err(maxerr(o_v, pv))
            for i in range(len(H)):
                for j in range(len(A)):
                    o1 = call(rbm.prob_v_given_ha, H[i], A[j])
                    if o1.dim() != 1 or not close(o1.numpy(), pv[i, j], TOL):
                        bad("cond:p(v|h,a):1d-form", o1, pv[i, j])
                        break
            for i in range(len(V)):
                o1 = call(rbm.prob_h_given_v, V[i])
                o2 = call(rbm.prob_a_given_v, V[i])
                if o1.dim() != 1 or o2.dim() != 1 or not close(o1.numpy(), ph[i], TOL) or not close(o2.numpy(), pa[i], TOL):
                    bad("cond:p(h|v):1d-form", [o1, o2], [ph[i], pa[i]])
                    break
            buf = torch.zeros(len(V), arch[1], dtype=torch.double)
            r = call(rbm.prob_h_given_v, V, out=buf)
            if not close(buf.numpy(), ph, TOL) or not close(r.numpy(), ph, TOL):
                bad("cond:out-buffer", buf, ph)
            Tm, _, _ = R.pur_kernel(*lam)
            lp = R.pur_logp_v(*lam)
        else:
            lam = split_binary(params[0], arch)
            ph, pv = R.rbm_unit_conditionals(*lam)
            H = tbits(arch[1])
            o_h = call(rbm.prob_h_given_v, V).numpy()
            o_v = call(rbm.prob_v_given_h, H).numpy()
            if not close(o_h, ph, TOL):
                bad("cond:p(h|v)", o_h, ph)
            if not close(o_v, pv, TOL):
                bad("cond:p(v|h)", o_v, pv)
            acc.err(max(maxerr(o_h, ph), maxerr(o_v, pv)))
            for i in range(len(V)):
                o1 = call(rbm.prob_h_given_v, V[i])
                if o1.dim() != 1 or not close(o1.numpy(), ph[i], TOL):
                    bad("cond:p(h|v):1d-form", o1, ph[i])
                    break
            for i in range(len(H)):
                o1 = call(rbm.prob_v_given_h, H[i])
                if o1.dim() != 1 or not close(o1.numpy(), pv[i], TOL):
                    bad("cond:p(v|h):1d-form", o1, pv[i])
                    break
            buf = torch.zeros(len(H), n, dtype=torch.double)
            r = call(rbm.prob_v_given_h, H, out=buf)
            if not close(buf.numpy(), pv, TOL) or not close(r.numpy(), pv, TOL):
                bad("cond:out-buffer", buf, pv)
            Tm, _, _ = R.rbm_kernel(*lam)
            lp = R.rbm_logp(*lam)
        # (iii) invariance and detailed balance with the distribution the library REPORTS
        p = call(st.probability, V).numpy()
        Z = float(call(st.normalization, V))
        pi = p / Z
        if not close(np.log(pi), lp - R.lse(lp, 0), TOL):
            bad("invariance:reported-distribution-is-not-the-visible-marginal", pi, np.exp(lp - R.lse(lp, 0)))
        flow = pi[:, None] * Tm
        if not close(pi @ Tm, pi, TOL, at=1e-13):
            bad("invariance:pi-T-not-pi", pi @ Tm, pi)
        if not close(flow, flow.T, TOL, at=1e-13):
            bad("invariance:detailed-balance", flow, flow.T)
        if not close(Tm.sum(1), np.ones(len(V)), 1e-12):
            raise EngineError("reference kernel rows do not sum to one")
        acc.count("kernel_rows_sum_to_one")
    except LibRaised as e:
        bad(f"cond:raised:{e.kind}", e.tb)
    acc.transitions += 2 ** n * (2 ** arch[1]) + 2 ** n
    acc.states += 1


def stateful_sequence(kind, arch):
    from ..common import pattern, net_sizes
    sizes = net_sizes(kind, arch)
    seq = []
    for q in range(7):
        ps = [pattern(n, q, r) for r, n in enumerate(sizes)]
        if kind == "mixed":
            from ..common import aux_bias_slice
            sl = aux_bias_slice(arch)
            for t in range(sl.start, sl.stop):
                ps[1][t] = 0.0
        seq.append(ps)
    return seq


def run_stateful(acc, kind, arch, upto=None):
    """non-initial states: a LIVE model samples, is updated in place (four styles + one real training
    step), and must sample from the distribution of its CURRENT parameters"""
    from ..common import update_params, UPDATE_STYLES, get_flat
    seq = stateful_sequence(kind, arch)
    st = build_state(kind, arch, seq[0])
    D = 2 ** arch[0]
    hist = []

    def probe(params):
        case = dict(kind=kind, arch=arch, params=params, history=list(hist))
        cond_case(acc, kind, arch, params, st=st, history=list(hist))
        tree_case(acc, case, "sample", 1, [D - 1], False, st=st)
        tree_case(acc, case, "gibbs", 2 if 2 ** sum(arch) <= 32 else 1, [0], True, st=st)

    probe(seq[0])
    for i, style in enumerate(UPDATE_STYLES):
        if upto is not None and i >= upto:
            return
        hist.append(dict(update=style, to_pattern=i + 1))
        update_params(st, seq[i + 1], style)
        probe(seq[i + 1])
    if upto is None:
        # one real optimizer step (the way training changes parameters), then probe at whatever it produced
        import numpy as _np
        torch.manual_seed(3)
        data = torch.tensor(R.bits(arch[0])[: min(3, D)], dtype=torch.double)
        kw = {} if kind == "positive" else dict(input_bases=_np.array([list("Z" * arch[0])] * len(data)))
        st.fit(data, epochs=1, pos_batch_size=2, lr=0.3, **kw)
        hist.append(dict(update="fit-one-epoch"))
        probe([get_flat(getattr(st, net)) for net in st.networks])


def run_item(item):
    acc = Acc()
    if item["layer"] == "stateful":
        run_stateful(acc, item["kind"], item["arch"])
        acc.sample(dict(layer="stateful", kind=item["kind"], arch=item["arch"], updates=["copy_", "rebind", "load_state_dict", "add_", "fit"]), cap=1)
        return acc
    if item["layer"] == "stream":
        run_stream(acc, item["kind"])
        return acc
    if item["layer"] in ("tree", "tree-extra"):
        run_tree_item(acc, item)
        return acc
    kind, arch = item["kind"], item["arch"]
    dev = 1 if kind != "complex" else 0
    first = True
    for tag, params in param_assignments(kind, arch, npat=3, dev=dev):
        if kind == "mixed" and len(tag) > 2 and tag[2] == 1:
            continue  # the phase network does not enter sampling
        cond_case(acc, kind, arch, params)
        if first:
            acc.sample(dict(layer="cond", kind=kind, arch=arch, params=params), cap=1)
            first = False
    acc.traces += 0
    return acc


def replay(case):
    acc = Acc()
    if case.get("history"):
        run_stateful(acc, case["kind"], case["arch"])
        return acc
    if case.get("layer") == "stream":
        run_stream(acc, case["kind"])
    elif case.get("layer") == "cond":
        cond_case(acc, case["kind"], case["arch"], case["params"])
    else:
        base = dict(kind=case["kind"], arch=case["arch"], params=case["params"])
        tree_case(acc, base, case["scenario"], case["k"], case["start"], case["overwrite"])
    return acc
