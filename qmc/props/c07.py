"""C07 - every epoch uses every training sample once, paired with its own basis.

E1: the real fit under an owned shuffle.  Every answer of randperm (all N! for N<=4) and of randint
(all when <= 256) is a choice point; the choice tree is explored completely when small, otherwise
with a deviation bound of 1 (every alternative of every choice point, others at their default).
Oracle = multiset / pairing / size invariants on the intercepted arguments of the public per-batch
method, plus bit-identity of the caller's data and bases.
"""
import math
from collections import Counter
import numpy as np
import torch

from ..common import lib, call, LibRaised, sha, EngineError
from ..engine.acc import Acc
from ..engine import tape as T
from ..engine.env import Owned, RngGuard
from . import _fit as F

ID = "C07"
ENGINE_NAME = "E1 choice-tape explorer"
RULE = ("one evaluation = one complete fit() under a fully decided shuffle (randperm / randint answers from the tape, Bernoulli "
        "draws scripted); non-trivial = N >= 2 (a shuffle that can reorder) ; distinct = distinct (configuration, tape)")
ASSUMPTIONS = ["datasets with bases always contain an all-Z row (a dataset without one makes randint(0) raise - outside the property)",
               "negative batch: exactly neg_batch_size rows, or - in the no-bases equal-size sharing case - the positive batch itself"]
COUNTS = ("states = nodes of the shuffle choice trees; transitions = tree edges; traces_validated_against_impl = complete fits whose "
          "every intercepted batch satisfied the invariants")
FORMS = ["float64", "float32", "numpy", "list"]
VARIANTS = ["distinct", "duplicates", "equal"]


def bound(tier):
    q = tier == "quick"
    return dict(N=[1, 5 if q else 6], pos_batch_size=[1, 6 if q else 7], neg_batch_size=["default", 1, 2, 3], epochs=[1, 2] if q else [1, 2, 3],
                kinds=["positive (no bases)", "complex (bases)", "mixed (bases, reduced)"], data_forms=FORMS, datasets=VARIANTS,
                randperm="all N! answers for N<=4, identity+transpositions+reversal+rotation beyond",
                randint="all answers when <= 256, structured menu beyond",
                exploration="full tree when <= 400 executions, else deviation bound 1",
                extra=["bases without any all-Z row (refusal accepted, training from rotated rows not)", "integer arguments as numpy integers"])


def plan(tier, seed):
    items = []
    Ns = range(1, 6) if tier == "quick" else range(1, 7)
    pbs = range(1, 7) if tier == "quick" else range(1, 8)
    eps = (1, 2) if tier == "quick" else (1, 2, 3)
    i = 0
    for kind in ("positive", "complex", "mixed"):
        for N in Ns:
            for pb in pbs:
                if pb > N + 1:
                    continue
                for nb in (None, 1, 2, 3):
                    for ep in eps:
                        if kind == "mixed" and (N > 3 or ep > 1 or pb > 3):
                            continue
                        full_cross = (N <= 3 and kind != "mixed") if tier == "thorough" else (N <= 2 and kind != "mixed")
                        combos = [(f, v) for f in FORMS for v in VARIANTS] if full_cross else [(FORMS[i % 4], VARIANTS[i % 3]), (FORMS[(i + 1) % 4], VARIANTS[(i + 2) % 3])]
                        if tier == "quick" and not full_cross and (N >= 4 or ep == 2):
                            combos = combos[:1]
                        for form, variant in combos:
                            items.append(dict(kind=kind, N=N, pb=pb, nb=nb, epochs=ep, form=form, variant=variant))
                            i += 1
    # the integer arguments given as numpy integers (an element of a parameter sweep array, the result of .sum())
    for kind in ("positive", "complex", "mixed"):
        for N, pb, nb in ((3, 2, 1), (3, 1, 2), (4, 2, 3), (2, 2, 1), (3, 3, None)):
            if kind == "mixed" and N > 3:
                continue
            items.append(dict(kind=kind, N=N, pb=pb, nb=nb, epochs=2 if kind != "mixed" else 1, form=FORMS[0], variant=VARIANTS[0], npints=True))
    # bases without a single all-Z row: the chains may only start from reference-basis rows, and there are none -
    # the library may refuse (it does, before the first batch) but must not start chains from rotated rows
    for kind in ("complex", "mixed"):
        for N in (1, 2, 3):
            for pb in (1, 2):
                for nb in (None, 1):
                    items.append(dict(kind=kind, N=N, pb=pb, nb=nb, epochs=1, form=FORMS[0], variant="no-z"))
    # chunk for worker efficiency
    return [dict(configs=items[j:j + 8]) for j in range(0, len(items), 8)]


def tree_size(cfg, nz):
    N, pb, nb, ep = cfg["N"], cfg["pb"], cfg["nb"], cfg["epochs"]
    nbs = nb or pb
    nbatch = math.ceil(N / pb)
    perm = len(F.perm_menu(N))
    if cfg["kind"] != "positive":
        ri = len(F.randint_menu(0, nz, nbatch * nbs))
    elif nbs != pb:
        ri = len(F.randint_menu(0, N, nbatch * nbs))
    else:
        ri = 1
    return (perm * ri) ** ep


def run_fit(cfg, tape, acc, record=None):
    """one real fit under the tape; returns list of violations [(sig, detail)]"""
    kind, N, pb, nb, ep = cfg["kind"], cfg["N"], cfg["pb"], cfg["nb"], cfg["epochs"]
    n = 2
    rows, bstr = F.dataset(n, N, cfg["variant"])
    with_bases = kind != "positive"
    st, arch, params = F.fresh_state(kind, n)
    data = F.as_form(rows, cfg["form"])
    data0 = F.snapshot(data)
    bases = np.array([list(b) for b in bstr]) if with_bases else None
    bases0 = None if bases is None else bases.copy()
    epochs_seen = []
    seen = []
    F.wrap_batches(st, seen, lambda: len(epochs_seen))
    chains = []
    F.wrap_gibbs(st, chains)
    L = lib()
    cb = L.callbacks.LambdaCallback(on_epoch_start=lambda s, e: epochs_seen.append(e))
    dec = F.FitDecider(tape)
    out = []
    kw = dict(input_bases=bases) if with_bases else {}
    try:
        with Owned(dec):
            if cfg.get("npints"):
                call(st.fit, data, epochs=np.int64(ep), pos_batch_size=np.int64(pb), neg_batch_size=None if nb is None else np.int32(nb), k=np.int64(1), lr=0.05, callbacks=[cb], **kw)
            else:
                call(st.fit, data, epochs=ep, pos_batch_size=pb, neg_batch_size=nb, k=1, lr=0.05, callbacks=[cb], **kw)
    except LibRaised as e:
        if cfg["variant"] == "no-z" and not seen:
            acc.outcome("no-reference-rows:refused:" + e.kind)  # refusing such data before any batch is legitimate
            return out
        out.append((f"batching:fit-raised:{e.kind}:{'N=1' if N == 1 else 'N>1'}:{'bases' if with_bases else 'nobases'}", dict(error=str(e), tb=e.tb)))
        return out
    if not F.same(data, data0):
        out.append(("batching:caller-data-modified", None))
    if with_bases and not np.array_equal(bases, bases0):
        out.append(("batching:caller-bases-modified", None))
    rowsf = [tuple(float(x) for x in r) for r in rows]
    pairs_want = Counter((rowsf[i], tuple(bstr[i]) if with_bases else None) for i in range(N))
    pool = {rowsf[i] for i in range(N) if not with_bases or set(bstr[i]) == {"Z"}}
    nbs = nb or pb
    if epochs_seen != list(range(1, ep + 1)):
        out.append(("batching:epochs-run", dict(seen=epochs_seen)))
        return out
    if len(dec.perms) != ep:
        out.append(("batching:one-shuffle-per-epoch", dict(randperm_calls=len(dec.perms), epochs=ep)))
        return out
    for e in range(1, ep + 1):
        bs = [b["batch"] for b in seen if b["at"] == e]
        if len(bs) != math.ceil(N / pb):
            out.append(("batching:number-of-batches", dict(epoch=e, got=len(bs), want=math.ceil(N / pb))))
            continue
        sizes = [len(b[0]) for b in bs]
        if not (all(x == pb for x in sizes[:-1]) and 0 < sizes[-1] <= pb and sum(sizes) == N):
            out.append(("batching:batch-sizes", dict(epoch=e, sizes=sizes, pos_batch_size=pb, N=N)))
            continue
        pairs = Counter()
        malformed = False
        for b in bs:
            if with_bases:
                if len(b) < 3 or np.ndim(b[2]) != 2 or len(b[2]) != len(b[0]):
                    malformed = True
                    break
            for i in range(len(b[0])):
                pairs[(tuple(b[0][i].tolist()), tuple(b[2][i]) if with_bases else None)] += 1
        if malformed:
            out.append(("batching:bases-batch-malformed", dict(epoch=e)))
            continue
        if pairs != pairs_want:
            out.append(("batching:sample-basis-pairs-differ-from-dataset", dict(epoch=e, got=[list(map(str, k)) + [v] for k, v in pairs.items()])))
            continue
        perm = dec.perms[e - 1]
        flat = [tuple(r.tolist()) for b in bs for r in b[0]]
        if flat != [rowsf[j] for j in perm]:
            out.append(("batching:positive-batches-do-not-follow-the-shuffle", dict(epoch=e, perm=perm)))
        for b in bs:
            if b[0].dtype != torch.double:
                out.append(("batching:batch-dtype", dict(dtype=str(b[0].dtype))))
            if not isinstance(b[1], torch.Tensor) or b[1].dim() != 2 or b[1].shape[1] != b[0].shape[1]:
                out.append(("batching:negative-batch-malformed", dict(epoch=e, shape=list(getattr(b[1], "shape", [])))))
                break
            negrows = [tuple(r.tolist()) for r in b[1]]
            if not all(r in pool for r in negrows):
                out.append(("batching:negative-rows-not-from-" + ("reference-basis-rows" if with_bases else "training-data"), dict(epoch=e, neg=negrows)))
                break
            if not (len(negrows) == nbs or (not with_bases and nbs == pb and tuple(b[1].shape) == tuple(b[0].shape) and torch.equal(b[1], b[0]))):
                out.append(("batching:negative-batch-size", dict(epoch=e, got=len(negrows), want=nbs)))
                break
    if not out:
        if len(chains) != len(seen):
            out.append(("batching:not-one-chain-per-batch", dict(chains=len(chains), batches=len(seen))))
        else:
            for c_, b_ in zip(chains, seen):
                neg = b_["batch"][1]
                if tuple(c_["start"].shape) != tuple(neg.shape) or not torch.equal(c_["start"], neg):
                    out.append(("batching:chains-not-started-from-the-negative-batch", dict(chain_rows=len(c_["start"]), negative_rows=len(neg))))
                    break
    if record is not None:
        record.append(dict(perms=dec.perms, ints=dec.ints, batches=len(seen)))
    return out


def explore_config(acc, cfg):
    rows, bstr = F.dataset(2, cfg["N"], cfg["variant"])
    nz = sum(1 for b in bstr if set(b) == {"Z"})
    size = tree_size(cfg, nz)
    bnd = None if size <= 400 else 1
    stats = T.Stats()
    first = True
    sigs = set()
    with RngGuard("observe"):
        for tp, viols in T.explore(lambda t: run_fit(cfg, t, acc), bound=bnd, stats=stats):
            acc.ev(1, nontrivial=cfg["N"] >= 2)
            acc.outcome(sha([cfg["N"], cfg["pb"], tp.choices]))
            for sig, detail in viols:
                if sig not in sigs:
                    sigs.add(sig)
                    acc.viol(sig, dict(cfg, tape=tp.choices), detail=detail)
            if first:
                first = False
    acc.states += stats.nodes
    acc.transitions += max(stats.nodes - 1, 0)
    acc.traces += stats.executions
    acc.choice_points += stats.choice_points
    acc.count("full_trees" if bnd is None else "deviation_bounded_trees")


def run_item(item):
    acc = Acc()
    for cfg in item["configs"]:
        explore_config(acc, cfg)
    acc.sample(dict(item["configs"][0], exploration="all randperm/randint answers"), cap=1)
    return acc


def replay(case):
    acc = Acc()
    cfg = {k: case[k] for k in ("kind", "N", "pb", "nb", "epochs", "form", "variant", "npints") if k in case}
    tp, viols = T.replay(lambda t: run_fit(cfg, t, acc), case["tape"])
    acc.ev(1)
    for sig, detail in viols:
        acc.viol(sig, dict(cfg, tape=case["tape"]), detail=detail)
    return acc
