"""Shared plumbing: import of the tree under test, parameter alphabets, tolerant comparison.

The tree under test is taken from exactly one place: $VERIF_REPO (default /repo).  It is put
first on sys.path, and `lib()` refuses to continue if `qucumber` resolves anywhere else.
"""
import os
import sys
import itertools
import hashlib
import json
import math
import traceback
import warnings

HOME = os.environ.get("QMC_HOME", os.path.dirname(os.path.dirname(os.path.abspath(__file__))))
REPO = os.path.realpath(os.environ.get("VERIF_REPO", "/repo"))
DEPS = os.path.join(HOME, ".deps") if os.path.isdir(os.path.join(HOME, ".deps")) else "/verif/.deps"

if REPO not in sys.path[:1]:
    sys.path.insert(0, REPO)
if DEPS not in sys.path:
    sys.path.append(DEPS)  # last: only supplies what /venv lacks (scipy, jsonschema)

warnings.simplefilter("ignore")

import numpy as np  # noqa: E402
import torch  # noqa: E402

torch.set_num_threads(1)


class EngineError(Exception):
    """The harness lost control (not a property verdict)."""


class _Lib:
    pass


_LIB = None


def lib():
    """Import qucumber from the tree under test (once) and return a namespace of its public parts."""
    global _LIB
    if _LIB is not None:
        return _LIB
    import qucumber

    where = os.path.realpath(os.path.dirname(qucumber.__file__))
    if not where.startswith(REPO + os.sep):
        raise EngineError(f"qucumber imported from {where}, not from {REPO}")
    L = _Lib()
    L.qucumber = qucumber
    from qucumber.nn_states import PositiveWaveFunction, ComplexWaveFunction, DensityMatrix
    from qucumber.rbm import BinaryRBM, PurificationRBM
    from qucumber.utils import cplx, unitaries
    import qucumber.utils.data as data
    import qucumber.observables as observables
    import qucumber.callbacks as callbacks

    L.PositiveWaveFunction = PositiveWaveFunction
    L.ComplexWaveFunction = ComplexWaveFunction
    L.DensityMatrix = DensityMatrix
    L.BinaryRBM = BinaryRBM
    L.PurificationRBM = PurificationRBM
    L.cplx = cplx
    L.unitaries = unitaries
    L.data = data
    L.observables = observables
    L.callbacks = callbacks
    L.types = {
        "positive": PositiveWaveFunction,
        "complex": ComplexWaveFunction,
        "mixed": DensityMatrix,
    }
    _LIB = L
    return L


def training_statistics():
    import qucumber.utils.training_statistics as ts

    return ts


# ---------------------------------------------------------------------------
# exceptions raised inside the library vs. inside the harness


TRANSPARENT = {"__torch_function__", "wrapper", "wrapped"}


def raised_in_library(exc):
    """True when the innermost frame of the traceback lies in the tree under test (or in torch /
    numpy called from it), i.e. the library - not the harness - failed."""
    tb = traceback.extract_tb(exc.__traceback__)
    home = os.path.realpath(HOME)
    last_ours = None
    for i, fr in enumerate(tb):
        if fr.filename.startswith("<"):
            continue  # frozen / built-in frames ("<frozen os>") are not files: realpath would place them under the cwd
        fn = os.path.realpath(fr.filename)
        if fn.startswith(REPO + os.sep):
            last_ours = "lib"
        elif fn.startswith(home + os.sep):
            # forwarding seams (the TorchFunctionMode hook, the recording wrappers around library methods) are
            # transparent: an error torch raises for the LIBRARY's arguments passes through them unchanged
            if fr.name in TRANSPARENT and last_ours == "lib":
                continue
            last_ours = "harness"
    return last_ours == "lib"


def exc_site(exc):
    tb = traceback.extract_tb(exc.__traceback__)
    for fr in reversed(tb):
        fn = os.path.realpath(fr.filename)
        if fn.startswith(REPO + os.sep):
            return f"{os.path.relpath(fn, REPO)}:{fr.name}"
    return "?"


class LibRaised(Exception):
    def __init__(self, exc):
        super().__init__(f"{type(exc).__name__}: {exc}")
        self.exc = exc
        self.kind = type(exc).__name__
        self.site = exc_site(exc)
        self.tb = "".join(traceback.format_exception(type(exc), exc, exc.__traceback__)[-6:])


def call(fn, *a, **k):
    """Run a library entry point; a failure that surfaces in library code becomes LibRaised (a
    property-level observation), anything else propagates as a harness fault."""
    try:
        return fn(*a, **k)
    except LibRaised:
        raise
    except EngineError:
        raise
    except Exception as e:  # noqa: BLE001
        if raised_in_library(e):
            raise LibRaised(e) from None
        raise


# ---------------------------------------------------------------------------
# alphabets (DESIGN section 4)

A3 = [-1.1, 0.35, 0.8]
A5 = [-1.7, -0.6, 0.25, 0.9, 1.4]
EXT = [-30.0, -7.0, 0.0, 7.0, 30.0]
STRIDES = [1, 2, 3, 4]


def pattern(n, q, r=0):
    """deterministic generic fill: adjacent parameters differ, no zeros, |x| <= 1.7"""
    s = STRIDES[q % 4]
    return [A5[(s * t + q + 2 * r) % 5] for t in range(n)]


def bits(n):
    return np.array(list(itertools.product([0.0, 1.0], repeat=n))).reshape(2 ** n, n)


def tbits(n):
    return torch.tensor(bits(n), dtype=torch.double)


def net_sizes(kind, arch):
    if kind == "mixed":
        nv, nh, na = arch
        one = nv * nh + nv * na + nv + nh + na
        return [one, one]
    nv, nh = arch
    one = nv * nh + nv + nh
    return [one] if kind == "positive" else [one, one]


def aux_bias_slice(arch):
    nv, nh, na = arch
    start = nv * nh + nv * na + nv + nh
    return slice(start, start + na)


def param_assignments(kind, arch, npat=2, dev=1, ext=EXT, zero_ph_aux=True, q0=0):
    """yield (tag, [flat vector per network]).  patterns, then 1- (and 2-) deviations to the
    extreme alphabet, simplest first.  For mixed states the phase network's auxiliary bias is held
    at its documented value 0."""
    sizes = net_sizes(kind, arch)

    def fix(vs):
        if kind == "mixed" and zero_ph_aux:
            sl = aux_bias_slice(arch)
            for t in range(sl.start, sl.stop):
                vs[1][t] = 0.0
        return vs

    skip = set()
    if kind == "mixed" and zero_ph_aux:
        sl = aux_bias_slice(arch)
        skip = {(1, t) for t in range(sl.start, sl.stop)}
    for q in range(q0, q0 + npat):
        base = fix([pattern(n, q, r) for r, n in enumerate(sizes)])
        yield ("pat", q), [list(v) for v in base]
        if dev >= 1:
            slots = [(r, t) for r, n in enumerate(sizes) for t in range(n) if (r, t) not in skip]
            for (r, t) in slots:
                for x in ext:
                    b = [list(v) for v in base]
                    b[r][t] = x
                    yield ("dev1", q, r, t, x), b
            if dev >= 2:
                for (r1, t1), (r2, t2) in itertools.combinations(slots, 2):
                    for x1 in ext:
                        for x2 in ext:
                            if abs(x1) == 30.0 and abs(x2) == 30.0:
                                continue  # keep exponents finite: at most one +-30 at a time
                            b = [list(v) for v in base]
                            b[r1][t1] = x1
                            b[r2][t2] = x2
                            yield ("dev2", q, r1, t1, x1, r2, t2, x2), b


def full_product(kind, arch, values, net=0, other_q=0):
    """every assignment of `values` to every parameter of one network (the other on a pattern)"""
    sizes = net_sizes(kind, arch)
    for combo in itertools.product(values, repeat=sizes[net]):
        vs = [pattern(n, other_q, r) for r, n in enumerate(sizes)]
        vs[net] = list(combo)
        if kind == "mixed":
            sl = aux_bias_slice(arch)
            for t in range(sl.start, sl.stop):
                vs[1][t] = 0.0
        yield ("full", net), vs


def set_flat(rbm, vals):
    i = 0
    for p in rbm.parameters():
        n = p.numel()
        p.data = torch.tensor(np.array(vals[i : i + n], dtype=float).reshape(tuple(p.shape)), dtype=torch.double)
        i += n
    if i != len(vals):
        raise EngineError("parameter vector length mismatch")


def get_flat(rbm):
    return [float(x) for p in rbm.parameters() for x in p.detach().reshape(-1).tolist()]


def build_state(kind, arch, params=None, unitary_dict=None):
    L = lib()
    if kind == "positive":
        st = L.PositiveWaveFunction(arch[0], arch[1], gpu=False)
    elif kind == "complex":
        st = L.ComplexWaveFunction(arch[0], arch[1], gpu=False, unitary_dict=unitary_dict)
    else:
        st = L.DensityMatrix(arch[0], arch[1], arch[2], gpu=False, unitary_dict=unitary_dict)
    if params is not None:
        for net, v in zip(st.networks, params):
            set_flat(getattr(st, net), v)
    return st


def split_binary(vals, arch):
    nv, nh = arch
    v = np.array(vals, dtype=float)
    W = v[: nh * nv].reshape(nh, nv)
    b = v[nh * nv : nh * nv + nv]
    c = v[nh * nv + nv :]
    return W, b, c


def split_purif(vals, arch):
    nv, nh, na = arch
    v = np.array(vals, dtype=float)
    i = 0
    W = v[i : i + nh * nv].reshape(nh, nv)
    i += nh * nv
    U = v[i : i + na * nv].reshape(na, nv)
    i += na * nv
    b = v[i : i + nv]
    i += nv
    c = v[i : i + nh]
    i += nh
    d = v[i : i + na]
    return W, U, b, c, d


def named_params(st):
    """independent read-out of the parameters BY NAME (not by parameters() order)"""
    out = []
    for net in st.networks:
        r = getattr(st, net)
        if hasattr(r, "weights_W"):
            out.append(
                dict(
                    W=r.weights_W.detach().numpy().copy(),
                    U=r.weights_U.detach().numpy().copy(),
                    b=r.visible_bias.detach().numpy().copy(),
                    c=r.hidden_bias.detach().numpy().copy(),
                    d=r.aux_bias.detach().numpy().copy(),
                )
            )
        else:
            out.append(
                dict(
                    W=r.weights.detach().numpy().copy(),
                    b=r.visible_bias.detach().numpy().copy(),
                    c=r.hidden_bias.detach().numpy().copy(),
                )
            )
    return out


# ---------------------------------------------------------------------------
# comparison / hashing


def close(a, b, rt=1e-9, at=None):
    """|a-b| <= rt*max(1,|a|,|b|) elementwise; robust to malformed observations (-> False)."""
    try:
        a = np.asarray(a)
        b = np.asarray(b)
        if a.shape != b.shape:
            return False
        if a.size == 0:
            return True
        if not (np.all(np.isfinite(a)) and np.all(np.isfinite(b))):
            return bool(np.array_equal(a, b, equal_nan=False))
        scale = np.maximum(1.0, np.maximum(np.abs(a), np.abs(b)))
        tol = rt * scale if at is None else np.maximum(rt * scale, at)
        return bool(np.all(np.abs(a - b) <= tol))
    except Exception:  # noqa: BLE001
        return False


def maxerr(a, b):
    try:
        a = np.asarray(a)
        b = np.asarray(b)
        if a.shape != b.shape:
            return float("inf")
        if a.size == 0:
            return 0.0
        scale = np.maximum(1.0, np.maximum(np.abs(a), np.abs(b)))
        e = np.abs(a - b) / scale
        e = np.where(np.isfinite(e), e, np.inf)
        return float(np.max(e))
    except Exception:  # noqa: BLE001
        return float("inf")


def sha(obj):
    if isinstance(obj, torch.Tensor):
        t = obj.detach().contiguous()
        return hashlib.sha256(str(t.dtype).encode() + str(tuple(t.shape)).encode() + t.numpy().tobytes()).hexdigest()[:16]
    if isinstance(obj, np.ndarray):
        return hashlib.sha256(str(obj.dtype).encode() + str(obj.shape).encode() + np.ascontiguousarray(obj).tobytes()).hexdigest()[:16]
    return hashlib.sha256(json.dumps(obj, sort_keys=True, default=str).encode()).hexdigest()[:16]


def params_hash(st):
    return tuple(sha(p) for net in st.networks for p in getattr(st, net).parameters())


def jsonable(x):
    if isinstance(x, torch.Tensor):
        return jsonable(x.detach().cpu().numpy())
    if isinstance(x, np.ndarray):
        if np.iscomplexobj(x):
            return {"re": x.real.tolist(), "im": x.imag.tolist()}
        return x.tolist()
    if isinstance(x, (np.floating,)):
        return float(x)
    if isinstance(x, (np.integer,)):
        return int(x)
    if isinstance(x, (np.bool_,)):
        return bool(x)
    if isinstance(x, complex):
        return {"re": x.real, "im": x.imag}
    if isinstance(x, dict):
        return {str(k): jsonable(v) for k, v in x.items()}
    if isinstance(x, (list, tuple, set, frozenset)):
        return [jsonable(v) for v in x]
    if isinstance(x, float):
        if math.isnan(x):
            return "nan"
        if math.isinf(x):
            return "inf" if x > 0 else "-inf"
        return x
    if isinstance(x, (int, str, bool)) or x is None:
        return x
    return repr(x)


# ---------------------------------------------------------------------------
# in-place updates of a LIVE model (non-initial states: caches must not go stale)

UPDATE_STYLES = ["reinit", "copy_", "rebind", "load_state_dict", "add_", "reinit"]


def update_params(st, params, style):
    """bring an existing state to `params` the way training / loading / user code would"""
    if style == "reinit":
        # reinitialise first: the networks get brand-new Parameter objects (anything that kept a handle
        # on the old ones is now stale), then the requested values are written into the new ones
        st.reinitialize_parameters()
        style = "copy_"
    for net, vals in zip(st.networks, params):
        rbm = getattr(st, net)
        i = 0
        new = {}
        for name, p in rbm.named_parameters():
            n = p.numel()
            new[name] = torch.tensor(np.array(vals[i:i + n], dtype=float).reshape(tuple(p.shape)), dtype=torch.double)
            i += n
        if style == "load_state_dict":
            rbm.load_state_dict(new)
            continue
        for name, p in rbm.named_parameters():
            if style == "copy_":
                p.data.copy_(new[name])
            elif style == "rebind":
                p.data = new[name]
            elif style == "add_":
                p.data.add_(new[name] - p.data)
                p.data.copy_(new[name])  # exact target value, still in place
            else:
                raise EngineError(style)


def space_of(st, n):
    """the SAME basis-state tensor object for every evaluation of one live model (memoisation keyed on
    the identity of the space tensor must not go stale either)"""
    sp = st.__dict__.get("_qmc_space")
    if sp is None or sp.shape[1] != n:
        sp = tbits(n)
        st.__dict__["_qmc_space"] = sp
    return sp
