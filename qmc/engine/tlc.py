"""E4 - TLC bridge: run TLC on a spec with a history variable, parse the state dump, hand every
complete behaviour (terminal state) to a replayer.  A missing / failing TLC is an EngineError."""
import ast
import os
import re
import shutil
import subprocess
import tempfile

from ..common import EngineError, HOME

SPEC_DIR = os.path.join(HOME, "qmc", "tla")


def run_tlc(spec, constants, invariants, workdir=None):
    if shutil.which("tlc") is None:
        raise EngineError("tlc not found on PATH")
    base = os.path.join(HOME, ".work")
    os.makedirs(base, exist_ok=True)
    wd = tempfile.mkdtemp(prefix="tlc_", dir=base)
    try:
        shutil.copy(os.path.join(SPEC_DIR, spec + ".tla"), os.path.join(wd, spec + ".tla"))
        with open(os.path.join(wd, spec + ".cfg"), "w") as f:
            f.write("CONSTANTS\n")
            for k, v in constants.items():
                f.write(f"  {k} = {v}\n")
            f.write("INIT Init\nNEXT Next\n")
            for inv in invariants:
                f.write(f"INVARIANT {inv}\n")
        meta = os.path.join(wd, "meta")
        dump = os.path.join(wd, "states")
        cmd = ["tlc", "-workers", "1", "-noGenerateSpecTE", "-deadlock", "-metadir", meta, "-dump", dump, spec]
        try:
            r = subprocess.run(cmd, cwd=wd, capture_output=True, text=True, timeout=300)
        except subprocess.TimeoutExpired:
            raise EngineError("tlc timed out")
        out = r.stdout + r.stderr
        if "Model checking completed. No error has been found" not in out:
            if "is violated" in out or "Invariant" in out and "violated" in out:
                raise EngineError("TLC reports an invariant violation in the MODEL (the spec, not the code, is wrong):\n" + out[-1500:])
            raise EngineError("tlc failed:\n" + out[-1500:])
        m = re.search(r"(\d+) states generated, (\d+) distinct states found", out)
        generated, distinct = (int(m.group(1)), int(m.group(2))) if m else (0, 0)
        md = re.search(r"The depth of the complete state graph search is (\d+)", out)
        path = dump + ".dump" if os.path.exists(dump + ".dump") else dump
        with open(path) as f:
            txt = f.read()
        return dict(states=parse_dump(txt), generated=generated, distinct=distinct, depth=int(md.group(1)) if md else 0)
    finally:
        shutil.rmtree(wd, ignore_errors=True)


def _value(v):
    v = v.strip()
    v = v.replace("<<>>", "()")
    v = v.replace("<<", "(").replace(">>", ",)")
    v = re.sub(r"\bTRUE\b", "True", v)
    v = re.sub(r"\bFALSE\b", "False", v)
    return ast.literal_eval(v)


def parse_dump(txt):
    states = []
    for blk in re.split(r"State \d+:\s*\n", txt)[1:]:
        d = {}
        for line in re.split(r"\n(?=/\\ )", blk.strip()):
            line = " ".join(line.split("\n"))
            m = re.match(r"/\\ (\w+) = (.*)", line)
            if not m:
                continue
            d[m.group(1)] = _value(m.group(2))
        states.append(d)
    return states
