"""Owned nondeterminism: every random draw the library makes goes through torch, and a
TorchFunctionMode sees all of them (factory functions, the call inside torch.distributions, the
`out=` forms).  `Owned` either *decides* each draw (from a tape / script) or *observes* it.

Around every execution the three global generators are fingerprinted:
  decide mode : torch, numpy and `random` states must be unchanged afterwards;
  observe mode: numpy and `random` must be unchanged.
A tripped guard is an EngineError (exit 2), never a property verdict.
"""
import random as _random

import numpy as np
import torch
from torch.overrides import TorchFunctionMode

from ..common import EngineError

RANDOM_FUNCS = {
    "bernoulli", "bernoulli_", "randperm", "randint", "randint_like", "randn", "rand", "rand_like",
    "randn_like", "normal", "normal_", "uniform_", "random_", "multinomial", "poisson",
    "exponential_", "geometric_", "cauchy_", "log_normal_", "rrelu", "dropout",
}

PASS = object()
LAZY_UNIFORM = object()   # decider's answer to rand / rand_like / uniform_(0,1): "tell me what you compare it with"

_CMP = {"lt": 0, "le": 0, "__lt__": 0, "__le__": 0, "gt": 1, "ge": 1, "__gt__": 1, "__ge__": 1}
_FORWARD = {"to", "double", "float", "clone", "contiguous", "reshape", "view", "type", "detach", "squeeze", "unsqueeze"}


class Owned(TorchFunctionMode):
    """decider(name, func, args, kwargs) -> tensor | PASS.   PASS lets torch draw (observe)."""

    def __init__(self, decider=None, mode="decide"):
        super().__init__()
        self.decider = decider
        self.mode = mode
        self.calls = []  # (name, shape/arg summary)
        self.undecided = 0
        self.lazy = {}   # id -> marker tensor standing for a U(0,1) variate whose only legal use is a threshold test
        self.flags = []  # observations about HOW the library draws (e.g. a uniform variate of too low precision)

    # -- a Bernoulli(p) draw realised as `rand(...) < p`: the comparison, not the rand call, is the choice point
    def _marker(self, shape, dtype):
        m = torch.zeros(tuple(shape), dtype=dtype if dtype is not None and dtype.is_floating_point else torch.get_default_dtype())
        self.lazy[id(m)] = m
        return m

    def _threshold(self, name, args):
        a, b = args[0], args[1]
        u_first = isinstance(a, torch.Tensor) and id(a) in self.lazy
        u, p = (a, b) if u_first else (b, a)
        if isinstance(p, torch.Tensor) and id(p) in self.lazy:
            raise EngineError("two uniform variates compared with each other: not a Bernoulli draw the harness can own")
        pt = p if isinstance(p, torch.Tensor) else torch.tensor(float(p), dtype=torch.double)
        if torch.finfo(u.dtype).bits < torch.finfo(pt.dtype if pt.dtype.is_floating_point else torch.double).bits:
            self.flags.append(f"uniform variate drawn as {u.dtype} compared with a {pt.dtype} probability")
        pb = torch.broadcast_to(pt.detach(), torch.broadcast_shapes(u.shape, pt.shape)).clone().to(torch.double).clamp(0.0, 1.0)
        self.calls.append("bernoulli")
        bits = self.decider("bernoulli", torch.bernoulli, (pb,), {})
        if bits is PASS:
            bits = torch.bernoulli(pb)
        below = bits.to(torch.bool)            # the event U < p
        less = _CMP[name] == 0
        # lt(u, p) -> U<p ; lt(p, u) -> p<U ; gt(u, p) -> U>p ; gt(p, u) -> p>U
        return below if (less == u_first) else ~below

    def __torch_function__(self, func, types, args=(), kwargs=None):
        kwargs = kwargs or {}
        name = getattr(func, "__name__", None)
        if self.lazy and any(isinstance(a, torch.Tensor) and id(a) in self.lazy for a in args):
            if name in _CMP and len(args) >= 2:
                return self._threshold(name, args)
            if name in _FORWARD:
                r = func(*args, **kwargs)
                if isinstance(r, torch.Tensor) and r.is_floating_point():
                    self.lazy[id(r)] = r
                return r
            if name not in ("size", "dim", "numel", "__get__", "__len__", "__repr__", "shape", "dtype", "device", "is_floating_point"):
                raise EngineError(f"a uniform variate is used in `{name}`, not in a threshold comparison: the harness cannot own this draw")
        if name in RANDOM_FUNCS:
            self.calls.append(name)
            if self.decider is not None:
                r = self.decider(name, func, args, kwargs)
                if r is LAZY_UNIFORM:
                    if name == "rand":
                        shape = args[0] if len(args) == 1 and isinstance(args[0], (tuple, list, torch.Size)) else tuple(a for a in args if isinstance(a, int)) or tuple(kwargs.get("size", ()))
                        return self._marker(shape, kwargs.get("dtype"))
                    if name == "rand_like":
                        return self._marker(args[0].shape, kwargs.get("dtype", args[0].dtype))
                    if name == "uniform_" and len(args) == 1 and not kwargs:
                        self.lazy[id(args[0])] = args[0]
                        return args[0]
                    raise EngineError(f"random call {name} with these arguments cannot be owned as a threshold draw")
                if r is not PASS:
                    return r
            self.undecided += 1
            return func(*args, **kwargs)
        return func(*args, **kwargs)


class RngGuard:
    def __init__(self, mode="decide"):
        self.mode = mode

    def __enter__(self):
        self.t = torch.get_rng_state().clone()
        self.n = np.random.get_state()
        self.r = _random.getstate()
        return self

    def check(self):
        n2 = np.random.get_state()
        if not (self.n[0] == n2[0] and np.array_equal(self.n[1], n2[1]) and self.n[2:] == n2[2:]):
            raise EngineError("unowned randomness: numpy global generator was consumed")
        if self.r != _random.getstate():
            raise EngineError("unowned randomness: python `random` generator was consumed")
        if self.mode == "decide" and not torch.equal(self.t, torch.get_rng_state()):
            raise EngineError("unowned randomness: torch generator was consumed in decide mode")

    def __exit__(self, et, ev, tb):
        if et is None:
            self.check()
        return False


def numpy_random_consumed(before):
    n2 = np.random.get_state()
    return not (before[0] == n2[0] and np.array_equal(before[1], n2[1]) and before[2:] == n2[2:])


# ---------------------------------------------------------------------------
# ready-made deciders


def bits_of(c, n):
    return [(c >> (n - 1 - j)) & 1 for j in range(n)]


def _deliver(x, kwargs):
    out = kwargs.get("out")
    if out is not None:
        out.copy_(x)
        return out
    return x


class TapeDecider:
    """Every Bernoulli draw becomes a choice point with 2^numel alternatives (weighted by the
    probabilities the library passed); randperm / randint answers come from the tape too."""

    def __init__(self, tape, perms=True, script=None):
        self.tape = tape
        self.script = script

    def __call__(self, name, func, args, kwargs):
        t = self.tape
        if name == "bernoulli":
            p = args[0] if args else kwargs["input"]
            if not isinstance(p, torch.Tensor):
                return PASS
            n = p.numel()
            pv = p.detach().reshape(-1).tolist()

            def w(c, pv=pv, n=n):
                out = 1.0
                for j in range(n):
                    out *= pv[j] if (c >> (n - 1 - j)) & 1 else 1.0 - pv[j]
                return out

            c = t.choose(2 ** n, "bernoulli", probs=w)
            x = torch.tensor(bits_of(c, n), dtype=p.dtype).reshape(p.shape)
            return _deliver(x, kwargs)
        if name == "randperm":
            import itertools, math

            n = int(args[0] if args else kwargs["n"])
            c = t.choose(math.factorial(n), "randperm")
            perm = nth_permutation(n, c)
            return torch.tensor(perm, dtype=kwargs.get("dtype", torch.long))
        if name == "randint":
            lo, hi, size = parse_randint(args, kwargs)
            m = int(np.prod(size)) if len(size) else 1
            span = hi - lo
            c = t.choose(span ** m, "randint")
            digits = []
            for _ in range(m):
                digits.append(lo + c % span)
                c //= span
            return torch.tensor(digits, dtype=kwargs.get("dtype", torch.long)).reshape(tuple(size))
        if name in ("rand", "rand_like", "uniform_"):
            return LAZY_UNIFORM
        raise EngineError(f"random call {name} reached a tape decider that does not own it")


def parse_randint(args, kwargs):
    a = list(args)
    size = kwargs.get("size")
    if size is None:
        size = a.pop()
    if "high" in kwargs:
        hi = kwargs["high"]
        lo = kwargs.get("low", a[0] if a else 0)
    elif len(a) == 2:
        lo, hi = a
    else:
        lo, hi = kwargs.get("low", 0), a[0]
    return int(lo), int(hi), tuple(size)


def nth_permutation(n, k):
    """k-th permutation of range(n) in lexicographic order (k=0 is the identity)"""
    import math

    items = list(range(n))
    out = []
    for i in range(n, 0, -1):
        f = math.factorial(i - 1)
        j, k = divmod(k, f)
        out.append(items.pop(j))
    return out


class ScriptDecider:
    """Deterministic, state-free answers: Bernoulli draws from a counter-based threshold script,
    permutations / randints supplied by callables.  Used where the property is about what the code
    does *with* the draws, not about their law."""

    def __init__(self, script=0, perm=None, randint=None):
        self.k = 0
        self.script = script
        self.perm = perm
        self.randint = randint
        self.perm_calls = 0
        self.randint_calls = 0
        self.log = []

    def _u(self):
        # low-discrepancy thresholds, different per script
        self.k += 1
        g = 0.6180339887498949 if self.script == 0 else 0.7548776662466927
        return (0.37 * (self.script + 1) + self.k * g) % 1.0

    def __call__(self, name, func, args, kwargs):
        if name == "bernoulli":
            p = args[0] if args else kwargs["input"]
            if not isinstance(p, torch.Tensor):
                return PASS
            u = torch.tensor([self._u() for _ in range(p.numel())], dtype=torch.double).reshape(p.shape)
            x = (u < p.to(torch.double)).to(p.dtype)
            return _deliver(x, kwargs)
        if name == "randperm":
            n = int(args[0] if args else kwargs["n"])
            i = self.perm_calls
            self.perm_calls += 1
            perm = self.perm(n, i) if self.perm else list(range(n))
            self.log.append(("randperm", list(perm)))
            return torch.tensor(list(perm), dtype=kwargs.get("dtype", torch.long))
        if name == "randint":
            lo, hi, size = parse_randint(args, kwargs)
            m = int(np.prod(size)) if len(size) else 1
            i = self.randint_calls
            self.randint_calls += 1
            vals = self.randint(lo, hi, m, i) if self.randint else [lo + (j % (hi - lo)) for j in range(m)]
            self.log.append(("randint", lo, hi, list(vals)))
            return torch.tensor(list(vals), dtype=kwargs.get("dtype", torch.long)).reshape(tuple(size))
        if name == "randn":
            return PASS
        raise EngineError(f"random call {name} is not owned by the script decider")
