"""E2 - explicit-state breadth-first search over operation histories.

A state *is* the history that reaches it: live torch objects do not copy reliably, so every
expansion rebuilds fresh real objects and replays the prefix.  `mod.expand((root, hist, op))`
executes hist+[op] on the real code in lock-step with the reference model, checks the invariants of
the *last* transition (earlier ones were checked when their history was expanded) and returns the
canonical abstraction of the reached state.  Histories are merged only when the canonical keys -
which include the reference state - agree.  Level-synchronous; the expansions of one level of ALL
roots are sharded over the pool together.
"""
from .acc import merge


def run(mod, tier, pool, total, seed=0):
    roots = list(mod.roots(tier))
    R = []
    for root in roots:
        depth = root.get("depth", mod.depth(tier)) if isinstance(root, dict) else mod.depth(tier)
        R.append(dict(root=root, depth=depth, ops=mod.ops(root, tier), seen={mod.root_key(root)}, frontier=[[]], trans=0, merged=0))
    maxd = max(r["depth"] for r in R)
    graph = dict(states=0, transitions=0, per_root=[], dedup_merged=0, depth=maxd)
    for d in range(maxd):
        tasks = []
        owner = []
        for i, r in enumerate(R):
            if d >= r["depth"]:
                continue
            for h in r["frontier"]:
                for op in r["ops"]:
                    if mod.enabled(r["root"], h, op):
                        tasks.append((r["root"], h, op))
                        owner.append(i)
            r["frontier"] = []
        if not tasks:
            break
        chunk = max(1, len(tasks) // (pool._processes * 8)) if pool is not None else 1
        it = pool.imap(mod.expand, tasks, chunk) if pool is not None else map(mod.expand, tasks)
        for (root, h, op), i, res in zip(tasks, owner, it):
            r = R[i]
            merge(total, res["acc"])
            if res["acc"].get("engine_error"):
                return graph
            r["trans"] += 1
            if res.get("dead"):
                continue  # a violating (or doubly refused) transition is reported once and not expanded further
            if res["key"] in r["seen"]:
                r["merged"] += 1
                continue
            r["seen"].add(res["key"])
            r["frontier"].append(h + [op])
    for r in R:
        graph["states"] += len(r["seen"])
        graph["transitions"] += r["trans"]
        graph["dedup_merged"] += r["merged"]
        graph["per_root"].append(dict(root=r["root"], depth=r["depth"], states=len(r["seen"]), transitions=r["trans"], merged=r["merged"]))
    total["states"] = total.get("states", 0) + graph["states"]
    total["transitions"] = total.get("transitions", 0) + graph["transitions"]
    total["traces"] = total.get("traces", 0) + graph["transitions"]
    return graph
