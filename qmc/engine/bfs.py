"""E2 - explicit-state breadth-first search over operation histories.

A state *is* the history that reaches it: live torch objects do not copy reliably, so every
expansion rebuilds fresh real objects and replays the prefix.  `mod.expand((root, hist, op))`
executes hist+[op] on the real code in lock-step with the reference model, checks the invariants of
the *last* transition (earlier ones were checked when their history was expanded) and returns the
canonical abstraction of the reached state.  Histories are merged only when the canonical keys -
which include the reference state - agree.  Level-synchronous, expansions sharded over the pool.
"""
from .acc import Acc, merge


def run(mod, tier, pool, total, seed=0):
    depth = mod.depth(tier)
    graph = dict(states=0, transitions=0, per_root=[], dedup_merged=0, depth=depth)
    for root in mod.roots(tier):
        ops = mod.ops(root, tier)
        k0 = mod.root_key(root)
        seen = {k0}
        frontier = [[]]
        trans = 0
        merged = 0
        for d in range(depth):
            tasks = [(root, h, op) for h in frontier for op in ops if mod.enabled(root, h, op)]
            nxt = []
            chunk = max(1, len(tasks) // (pool._processes * 8)) if pool is not None else 1
            it = pool.imap(mod.expand, tasks, chunk) if pool is not None else map(mod.expand, tasks)
            for (r, h, op), res in zip(tasks, it):
                merge(total, res["acc"])
                if res["acc"].get("engine_error"):
                    return graph
                trans += 1
                if res.get("dead"):
                    continue  # transition refused by the real code AND by the reference: no new state
                if res["key"] in seen:
                    merged += 1
                    continue
                seen.add(res["key"])
                nxt.append(h + [op])
            frontier = nxt
            if not frontier:
                break
        graph["states"] += len(seen)
        graph["transitions"] += trans
        graph["dedup_merged"] += merged
        graph["per_root"].append(dict(root=root, states=len(seen), transitions=trans, merged=merged))
    total["states"] = total.get("states", 0) + graph["states"]
    total["transitions"] = total.get("transitions", 0) + graph["transitions"]
    total["traces"] = total.get("traces", 0) + graph["transitions"]
    return graph
