"""E1 - stateless choice-tape explorer (deviation-bounded DFS by prefix replay).

A harness body is an ordinary function `body(tape)`.  Wherever the environment decides something
it calls `tape.choose(n, label, probs=None)`.  Alternative 0 is the default answer.  The explorer
runs the body with a prefix, takes 0 at every later point, and then recurses on every point after
the prefix and every alternative > 0.  A choice that is out of range while replaying a prefix, or a
prefix that is not consumed, is a hard error: it means the harness does not own all nondeterminism.
"""
from ..common import EngineError


class Divergence(EngineError):
    pass


class Tape:
    __slots__ = ("prefix", "choices", "arity", "labels", "weight", "meta", "lenient", "adjusted")

    def __init__(self, prefix=(), lenient=False):
        self.lenient = lenient      # replay of a schedule recorded on ANOTHER tree: follow it as far as it exists
        self.adjusted = False
        self.prefix = list(prefix)
        self.choices = []
        self.arity = []
        self.labels = []
        self.weight = 1.0
        self.meta = []

    def choose(self, n, label="", probs=None):
        i = len(self.choices)
        c = self.prefix[i] if i < len(self.prefix) else 0
        if not (0 <= c < n) and self.lenient:
            c, self.adjusted = 0, True
        if not (0 <= c < n):
            raise Divergence(f"choice {c} out of range {n} at point {i} ({label}) while replaying {self.prefix}")
        self.choices.append(c)
        self.arity.append(n)
        self.labels.append(label)
        if probs is not None:
            self.weight *= float(probs(c) if callable(probs) else probs[c])
        return c

    def finished(self):
        if len(self.choices) < len(self.prefix) and self.lenient:
            self.adjusted = True
            return
        if len(self.choices) < len(self.prefix):
            raise Divergence(f"prefix {self.prefix} not consumed (only {len(self.choices)} choice points)")

    @property
    def deviations(self):
        return sum(1 for c in self.choices if c)


class Stats:
    def __init__(self):
        self.executions = 0
        self.choice_points = 0
        self.max_depth = 0
        self.nodes = 0  # distinct (prefix) nodes of the choice tree = distinct tape prefixes visited
        self.bound = None
        self.capped = False


def explore(body, bound=None, max_exec=None, stats=None, prune=None):
    """yield (tape, result) for every execution with <= bound deviations (None = all).

    `prune(tape, i, alt)` may return True to skip an alternative (used only for alternatives whose
    path weight is exactly 0, and reported by the caller)."""
    st = stats if stats is not None else Stats()
    st.bound = bound
    stack = [[]]
    while stack:
        pre = stack.pop()
        t = Tape(pre)
        r = body(t)
        t.finished()
        st.executions += 1
        st.choice_points += len(t.choices)
        st.max_depth = max(st.max_depth, len(t.choices))
        st.nodes += len(t.choices) - len(pre) + 1
        yield t, r
        if max_exec is not None and st.executions >= max_exec:
            st.capped = bool(stack)
            return
        devs = sum(1 for c in pre if c)
        if bound is not None and devs + 1 > bound:
            continue
        # children in reverse so that the DFS visits lower alternatives / earlier points first
        for i in range(len(t.choices) - 1, len(pre) - 1, -1):
            for alt in range(t.arity[i] - 1, 0, -1):
                if prune is not None and prune(t, i, alt):
                    continue
                stack.append(t.choices[:i] + [alt])


def replay(body, choices, lenient=True):
    """Re-run one recorded schedule.  Replay files are also run against OTHER trees (a fix, a seeded change, the
    clean tree): there the recorded schedule may not exist (fewer choice points, a smaller menu).  In lenient
    mode it is followed as far as it exists, defaults after that (`tape.adjusted` says so); strict mode is what
    the explorer's own determinism checks use."""
    t = Tape(choices, lenient=lenient)
    r = body(t)
    t.finished()
    if not lenient and t.choices != list(choices):
        raise Divergence(f"replay took {t.choices}, expected {list(choices)}")
    return t, r
