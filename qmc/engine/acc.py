"""Per-item accumulator returned by workers and merged by the runner."""
from ..common import jsonable, sha

MAX_VIOL_PER_ITEM = 12
MAX_OUTCOMES = 4096


class Acc:
    def __init__(self):
        self.evaluations = 0
        self.nontrivial = 0
        self.states = 0
        self.transitions = 0
        self.traces = 0
        self.choice_points = 0
        self.outcomes = set()
        self.violations = []
        self.n_violations = 0
        self.samples = []
        self.worst = 0.0
        self.counters = {}
        self.engine_error = None

    # -- counting ---------------------------------------------------------
    def ev(self, n=1, nontrivial=True):
        self.evaluations += n
        if nontrivial:
            self.nontrivial += n

    def count(self, name, n=1):
        self.counters[name] = self.counters.get(name, 0) + n

    def outcome(self, key):
        if len(self.outcomes) < MAX_OUTCOMES:
            self.outcomes.add(key if isinstance(key, (str, int)) else sha(key))

    def err(self, e):
        try:
            e = float(e)
        except Exception:  # noqa: BLE001
            return
        if e == e and e != float("inf") and e > self.worst:
            self.worst = e

    def sample(self, obj, cap=2):
        if len(self.samples) < cap:
            self.samples.append(jsonable(obj))

    # -- violations -------------------------------------------------------
    def viol(self, signature, case, observed=None, expected=None, detail=None, tol=None):
        self.n_violations += 1
        if len(self.violations) < MAX_VIOL_PER_ITEM:
            self.violations.append(
                dict(
                    signature=signature,
                    case=jsonable(case),
                    observed=jsonable(observed),
                    expected=jsonable(expected),
                    detail=jsonable(detail),
                    tolerance=tol,
                )
            )

    def to_dict(self):
        return dict(
            evaluations=self.evaluations,
            nontrivial=self.nontrivial,
            states=self.states,
            transitions=self.transitions,
            traces=self.traces,
            choice_points=self.choice_points,
            outcomes=list(self.outcomes),
            violations=self.violations,
            n_violations=self.n_violations,
            samples=self.samples,
            worst=self.worst,
            counters=self.counters,
            engine_error=self.engine_error,
        )


def merge(total, d):
    for k in ("evaluations", "nontrivial", "states", "transitions", "traces", "choice_points", "n_violations"):
        total[k] = total.get(k, 0) + d[k]
    total.setdefault("outcomes", set()).update(d["outcomes"])
    total.setdefault("violations", []).extend(d["violations"])
    s = total.setdefault("samples", [])
    if len(s) < 6:
        s.extend(d["samples"][: 6 - len(s)])
    total["worst"] = max(total.get("worst", 0.0), d["worst"])
    c = total.setdefault("counters", {})
    for k, v in d["counters"].items():
        c[k] = c.get(k, 0) + v
    if d.get("engine_error") and not total.get("engine_error"):
        total["engine_error"] = d["engine_error"]
    return total
