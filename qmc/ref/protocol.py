"""Reference generator of the documented training event protocol (never imports qucumber).

train_start; for ep in start..epochs: epoch_start, (batch_start, batch_end)*, epoch_end; train_end -
truncated by the sticky stop flag exactly as documented: examined before anything happens, after each
batch end and after each epoch end."""


def run(e0, E, nb, inject=None, pre=False):
    """inject = index (0-based, in the emitted sequence) of the event during which the stop request is
    made; returns list of (event tuple, stop flag after the event)"""
    out = []
    stop = bool(pre)

    def emit(*e):
        nonlocal stop
        if inject is not None and len(out) == inject:
            stop = True
        out.append((tuple(e), stop))

    if stop:
        return out
    emit("train_start")
    for ep in range(e0, E + 1):
        emit("epoch_start", ep)
        for b in range(nb):
            emit("batch_start", ep, b)
            emit("batch_end", ep, b)
            if stop:
                break
        emit("epoch_end", ep)
        if stop:
            break
    emit("train_end")
    return out
