"""Reference models written from the *definitions* (numpy, brute force, never importing qucumber).

RBM:           E(v,h)   = -(b.v + c.h + h^T W v)                       p(v) = sum_h e^{-E}
Purification:  E(v,h,a) = -(b.v + c.h + d.a + h^T W v + a^T U v)
               psi(v,a) = sqrt(sum_h e^{-E_lambda}) * exp(i/2 log sum_h e^{-E_mu})
               rho(v,v')= sum_a psi(v,a) conj(psi(v',a))
Basis index k <-> big-endian bits, site 0 = most significant = leftmost Kronecker factor.
"""
import itertools
import numpy as np


def bits(n):
    return np.array(list(itertools.product([0.0, 1.0], repeat=n))).reshape(2 ** n, n)


def lse(x, axis):
    m = x.max(axis=axis, keepdims=True)
    return (m + np.log(np.exp(x - m).sum(axis=axis, keepdims=True))).squeeze(axis)


# ---- plain RBM ------------------------------------------------------------
def rbm_joint_log(W, b, c):
    """log of unnormalised joint, shape (2^nv, 2^nh)"""
    nh, nv = W.shape
    V, H = bits(nv), bits(nh)
    return (V @ b)[:, None] + (H @ c)[None, :] + V @ W.T @ H.T


def rbm_logp(W, b, c):
    return lse(rbm_joint_log(W, b, c), 1)


def rbm_kernel(W, b, c):
    """block-Gibbs kernel T[v,v'] = sum_h p(h|v) p(v'|h), plus p(h|v), p(v|h)"""
    J = rbm_joint_log(W, b, c)
    Phv = np.exp(J - lse(J, 1)[:, None])  # [v,h]
    Pvh = np.exp(J - lse(J, 0)[None, :]).T  # [h,v]
    return Phv @ Pvh, Phv, Pvh


def rbm_unit_conditionals(W, b, c):
    """p(h_j = 1 | v) for every v  [2^nv, nh];  p(v_i = 1 | h) for every h [2^nh, nv] - from the joint"""
    nh, nv = W.shape
    V, H = bits(nv), bits(nh)
    J = rbm_joint_log(W, b, c)
    Phv = np.exp(J - lse(J, 1)[:, None])
    Pvh = np.exp(J - lse(J, 0)[None, :]).T
    ph = Phv @ H  # marginal of unit j being on given v
    pv = Pvh @ V
    return ph, pv


# ---- purification RBM -----------------------------------------------------
def pur_joint_log(W, U, b, c, d):
    """[v,h,a]"""
    nh, nv = W.shape
    na = U.shape[0]
    V, H, A = bits(nv), bits(nh), bits(na)
    return (
        (V @ b)[:, None, None]
        + (H @ c)[None, :, None]
        + (A @ d)[None, None, :]
        + (V @ W.T @ H.T)[:, :, None]
        + (V @ U.T @ A.T)[:, None, :]
    )


def pur_logp_va(W, U, b, c, d):
    return lse(pur_joint_log(W, U, b, c, d), 1)  # [v,a]


def pur_logp_v(W, U, b, c, d):
    J = pur_joint_log(W, U, b, c, d)
    return lse(J.reshape(J.shape[0], -1), 1)


def pur_kernel(W, U, b, c, d):
    J = pur_joint_log(W, U, b, c, d)
    nV = J.shape[0]
    F = J.reshape(nV, -1)
    Pha = np.exp(F - lse(F, 1)[:, None])  # p(h,a|v)
    Pv = np.exp(F - lse(F, 0)[None, :]).T  # p(v|h,a)
    return Pha @ Pv, Pha, Pv


def pur_unit_conditionals(W, U, b, c, d):
    nh, nv = W.shape
    na = U.shape[0]
    V, H, A = bits(nv), bits(nh), bits(na)
    J = pur_joint_log(W, U, b, c, d)
    nV = J.shape[0]
    F = J.reshape(nV, -1)
    Pha = np.exp(F - lse(F, 1)[:, None]).reshape(nV, len(H), len(A))
    ph = np.einsum("vha,hj->vj", Pha, H)
    pa = np.einsum("vha,ak->vk", Pha, A)
    Pv = np.exp(F - lse(F, 0)[None, :]).reshape(nV, len(H), len(A))  # p(v|h,a) [v,h,a]
    pv = np.einsum("vha,vi->hai", Pv, V)  # [h,a,i]
    return ph, pa, pv


def psi_ref(lam, mu=None):
    la = rbm_logp(*lam)
    ph = rbm_logp(*mu) / 2 if mu is not None else np.zeros_like(la)
    return np.exp(la / 2 + 1j * ph)


def rho_ref(lam, mu):
    """partial trace over the auxiliary units of the purified state (lam, mu 5-tuples W,U,b,c,d)"""
    la = pur_logp_va(*lam)
    ph = pur_logp_va(*mu)
    psi = np.exp(la / 2 + 1j * ph / 2)
    return psi @ psi.conj().T


def rho_ref_scaled(lam, mu):
    """rho_ij / sqrt(rho_ii rho_jj) computed in the log domain (stable with a parameter at +-30)"""
    la = pur_logp_va(*lam)
    ph = pur_logp_va(*mu)
    ld = lse(la, 1)  # log diag
    psi = np.exp((la - ld[:, None]) / 2 + 1j * ph / 2)
    return psi @ psi.conj().T, ld


# ---- unitaries / operators -------------------------------------------------
I2 = np.eye(2, dtype=complex)
PX = np.array([[0, 1], [1, 0]], dtype=complex)
PY = np.array([[0, -1j], [1j, 0]], dtype=complex)
PZ_LIB = np.diag([-1.0, 1.0]).astype(complex)  # documented to_pm1 convention: 0 -> -1, 1 -> +1
S2 = 1 / np.sqrt(2)
# change-of-basis matrices: row 0 = bra of the +1 eigenvector, row 1 = bra of the -1 eigenvector
UX = S2 * np.array([[1, 1], [1, -1]], dtype=complex)
UY = S2 * np.array([[1, -1j], [1, 1j]], dtype=complex)
UZ = I2.copy()
UH = UX.copy()
US = np.diag([1, 1j]).astype(complex)
_th, _ph, _la = 0.7, 0.4, -1.1
UG = np.array(
    [[np.cos(_th) * np.exp(1j * _ph), np.sin(_th) * np.exp(1j * _la)],
     [-np.sin(_th) * np.exp(-1j * _la), np.cos(_th) * np.exp(-1j * _ph)]], dtype=complex)
DEFAULT_U = {"X": UX, "Y": UY, "Z": UZ}
CUSTOM_U = {"H": UH, "S": US, "G": UG}


def kron_all(ms):
    out = np.array([[1.0 + 0j]])
    for m in ms:
        out = np.kron(out, m)
    return out


def basis_unitary(basis, udict=None):
    ud = udict or DEFAULT_U
    return kron_all([ud[ch] for ch in basis])


def site_op(P, i, n):
    return kron_all([P if j == i else I2 for j in range(n)])


def index_of(row):
    k = 0
    for x in row:
        k = 2 * k + int(round(float(x)))
    return k


def partial_trace_keep(rho, keep, n):
    """reduced density matrix on the sites in `keep` (sorted)"""
    keep = sorted(keep)
    t = rho.reshape([2] * (2 * n))
    rest = [i for i in range(n) if i not in keep]
    letters = "abcdefghijklmnopqrstuvwxyz"
    row = list(letters[:n])
    col = list(letters[n : 2 * n])
    for i in rest:
        col[i] = row[i]
    out = [row[i] for i in keep] + [col[i] for i in keep]
    eq = "".join(row) + "".join(col) + "->" + "".join(out)
    r = np.einsum(eq, t)
    d = 2 ** len(keep)
    return r.reshape(d, d)


# ---- metrics ----------------------------------------------------------------
def psd_sqrt(a):
    w, v = np.linalg.eigh((a + a.conj().T) / 2)
    w = np.clip(w, 0, None)
    return (v * np.sqrt(w)) @ v.conj().T


def uhlmann(rho, sigma):
    s = psd_sqrt(rho)
    m = s @ sigma @ s
    w = np.linalg.eigvalsh((m + m.conj().T) / 2)
    return float(np.sum(np.sqrt(np.clip(w, 0, None))) ** 2)


def kl(p, q):
    p = np.asarray(p, dtype=float)
    q = np.asarray(q, dtype=float)
    m = p > 0
    return float(np.sum(p[m] * (np.log(p[m]) - np.log(q[m]))))
