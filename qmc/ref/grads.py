"""Reference negative log-likelihood as a differentiable torch (complex128) function of the
parameters, built from the brute-force definitions; gradients come from torch.autograd per NAMED
parameter.  Never imports qucumber."""
import itertools
import numpy as np
import torch

from . import models as R


def T(x):
    return torch.tensor(np.asarray(x), dtype=torch.double)


def tbits(n):
    return T(R.bits(n))


def t_rbm_logp(W, b, c, V):
    H = tbits(W.shape[0])
    return torch.logsumexp((V @ b)[:, None] + (H @ c)[None, :] + V @ W.t() @ H.t(), 1)


def t_pur_logp_va(W, U, b, c, d, V):
    H = tbits(W.shape[0])
    A = tbits(U.shape[0])
    ex = ((V @ b)[:, None, None] + (A @ d)[None, :, None] + (H @ c)[None, None, :]
          + (V @ W.t() @ H.t())[:, None, :] + (V @ U.t() @ A.t())[:, :, None])
    return torch.logsumexp(ex, 2)  # [v, a]


def kron_u(basis, udict):
    U = torch.ones(1, 1, dtype=torch.cdouble)
    for ch in basis:
        U = torch.kron(U, torch.tensor(udict[ch], dtype=torch.cdouble))
    return U


def make_leaves(named):
    """named: list (per network) of dict name -> numpy array.  returns same structure of leaf tensors"""
    return [{k: T(v).clone().requires_grad_(True) for k, v in net.items()} for net in named]


def all_bases(n, kind):
    if kind == "positive":
        return ["Z" * n]
    return ["".join(b) for b in itertools.product("XYZ", repeat=n)]


def loss_table(kind, n, leaves, bases, udict=None, eps=0.0):
    """L[s, j] = -log ptilde^{bases[j]}(s)  (unnormalised Born probability of outcome s in basis j;
    for mixed states rotated (non all-Z) bases optionally regularised by eps as the library does),
    and log Z."""
    ud = udict or R.DEFAULT_U
    V = tbits(n)
    if kind == "mixed":
        lam, mu = leaves
        la = t_pur_logp_va(lam["W"], lam["U"], lam["b"], lam["c"], lam["d"], V)
        ph = t_pur_logp_va(mu["W"], mu["U"], mu["b"], mu["c"], mu["d"], V)
        psi = torch.exp(torch.complex(la / 2, ph / 2))
        rho = psi @ psi.conj().t()
        logZ = torch.log(torch.diagonal(rho).real.sum())
        cols = []
        for b in bases:
            U = kron_u(b, ud)
            p = torch.diagonal(U @ rho @ U.conj().t()).real
            cols.append(-torch.log(p + (0.0 if set(b) == {"Z"} else eps)))
        return torch.stack(cols, 1), logZ
    lam = leaves[0]
    la = t_rbm_logp(lam["W"], lam["b"], lam["c"], V)
    if kind == "complex":
        mu = leaves[1]
        ph = t_rbm_logp(mu["W"], mu["b"], mu["c"], V)
    else:
        ph = torch.zeros_like(la)
    psi = torch.exp(torch.complex(la / 2, ph / 2))
    logZ = torch.logsumexp(la, 0)
    cols = []
    for b in bases:
        U = kron_u(b, ud)
        cols.append(-torch.log((U @ psi).abs() ** 2))
    return torch.stack(cols, 1), logZ


def grad_named(scalar, leaves):
    flat = [(i, k, t) for i, net in enumerate(leaves) for k, t in net.items()]
    g = torch.autograd.grad(scalar, [t for _, _, t in flat], retain_graph=True, allow_unused=True)
    out = [dict() for _ in leaves]
    for (i, k, t), gi in zip(flat, g):
        out[i][k] = (gi if gi is not None else torch.zeros_like(t)).detach().numpy().copy()
    return out


def jacobian_table(L, leaves):
    """J[s][j] = named gradient of L[s,j]"""
    S, B = L.shape
    return [[grad_named(L[s, j], leaves) for j in range(B)] for s in range(S)]


def finite_difference_check(kind, n, named, bases, h=1e-6):
    """central finite differences of the reference itself vs its autograd gradient (oracle sanity)"""
    leaves = make_leaves(named)
    L, logZ = loss_table(kind, n, leaves, bases)
    total = L.sum() + logZ
    g = grad_named(total, leaves)
    worst = 0.0
    for i, net in enumerate(named):
        for k, arr in net.items():
            flat = arr.reshape(-1)
            for t in range(min(flat.size, 3)):
                def f(delta):
                    nm = [{kk: vv.copy() for kk, vv in nn.items()} for nn in named]
                    nm[i][k].reshape(-1)[t] += delta
                    lv = make_leaves(nm)
                    LL, lz = loss_table(kind, n, lv, bases)
                    return float(LL.sum() + lz)
                fd = (f(h) - f(-h)) / (2 * h)
                worst = max(worst, abs(fd - g[i][k].reshape(-1)[t]) / max(1.0, abs(fd)))
    return worst
