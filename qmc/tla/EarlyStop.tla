---- MODULE EarlyStop ----
(* The documented convergence rule of the early-stopping callback (property C18), absolute
   criterion, over integer-valued monitored quantities.  An evaluator records one value every PE
   epochs; the stopper looks every PS epochs and requests a stop when at least PAT+1 evaluations
   exist and |value PAT evaluations earlier - current value| < TOL.  The environment chooses every
   recorded value from Vals, so TLC enumerates every value sequence up to MaxEpoch epochs; `evals`
   doubles as the history variable that makes every complete behaviour a distinct terminal state. *)
EXTENDS Integers, Sequences
CONSTANTS Vals, MaxEpoch, PE, PS, PAT, TOL
VARIABLES ep, evals, stopped, stopAt
vars == <<ep, evals, stopped, stopAt>>

Abs(x) == IF x < 0 THEN -x ELSE x
Init == ep = 0 /\ evals = <<>> /\ stopped = FALSE /\ stopAt = 0

RuleHolds(es) == Len(es) > PAT /\ Abs(es[Len(es) - PAT] - es[Len(es)]) < TOL

Decide(e, es) == IF e % PS = 0 /\ RuleHolds(es)
                   THEN stopped' = TRUE /\ stopAt' = e
                   ELSE stopped' = FALSE /\ stopAt' = 0

Step == /\ ~stopped /\ ep < MaxEpoch
        /\ ep' = ep + 1
        /\ IF (ep + 1) % PE = 0
             THEN \E v \in Vals : evals' = Append(evals, v) /\ Decide(ep + 1, Append(evals, v))
             ELSE evals' = evals /\ Decide(ep + 1, evals)
Next == Step
Spec == Init /\ [][Next]_vars

TypeOK == ep \in 0..MaxEpoch /\ stopped \in BOOLEAN /\ stopAt \in 0..MaxEpoch /\ Len(evals) <= MaxEpoch
\* the clauses of the property, stated on the model
StopsOnlyAtCheckedEpochs == stopped => (stopAt = ep /\ ep % PS = 0)
NeverBeforeEnoughEvaluations == stopped => Len(evals) > PAT
NeverComparesWithItself == stopped => (Len(evals) - PAT) # Len(evals)
RuleMetWhenStopped == stopped => Abs(evals[Len(evals) - PAT] - evals[Len(evals)]) < TOL
====
