---- MODULE FitProtocol ----
(* The documented event protocol of NeuralStateBase.fit and its stop-request rule (property C12).
   Written from the documentation, independently of the Python reference generator.
   `trace` is a history variable: every complete behaviour ends in a distinct terminal state
   (pc = "done"), which is what the bridge replays against the real fit.                      *)
EXTENDS Naturals, Sequences
CONSTANTS E0, E, NB
VARIABLES pc, ep, b, stop, trace
vars == <<pc, ep, b, stop, trace>>

Init == pc = "start" /\ ep = E0 /\ b = 0 /\ stop \in {FALSE, TRUE} /\ trace = <<>>

\* emit event e; during it the environment (any callback) may raise the sticky stop flag
Emit(e) == /\ stop' \in {stop, TRUE}
           /\ trace' = Append(trace, <<e, stop'>>)

Start == /\ pc = "start"
         /\ IF stop THEN pc' = "done" /\ UNCHANGED <<ep, b, stop, trace>>
            ELSE pc' = "epoch" /\ Emit(<<"train_start">>) /\ UNCHANGED <<ep, b>>
Epoch == /\ pc = "epoch"
         /\ IF ep > E THEN pc' = "end" /\ UNCHANGED <<ep, b, stop, trace>>
            ELSE pc' = "batch" /\ b' = 0 /\ Emit(<<"epoch_start", ep>>) /\ UNCHANGED ep
BatchS == /\ pc = "batch"
          /\ IF b >= NB THEN pc' = "eend" /\ UNCHANGED <<ep, b, stop, trace>>
             ELSE pc' = "bend" /\ Emit(<<"batch_start", ep, b>>) /\ UNCHANGED <<ep, b>>
BatchE == /\ pc = "bend" /\ Emit(<<"batch_end", ep, b>>)
          /\ b' = b + 1 /\ UNCHANGED ep
          /\ pc' = IF stop' THEN "eend" ELSE "batch"
EpochE == /\ pc = "eend" /\ Emit(<<"epoch_end", ep>>) /\ UNCHANGED b
          /\ ep' = ep + 1
          /\ pc' = IF stop' THEN "end" ELSE "epoch"
End == /\ pc = "end" /\ Emit(<<"train_end">>) /\ pc' = "done" /\ UNCHANGED <<ep, b>>
Next == Start \/ Epoch \/ BatchS \/ BatchE \/ EpochE \/ End
Spec == Init /\ [][Next]_vars

Ev(i) == trace[i][1]
StopAfter(i) == trace[i][2]
Kind(i) == Ev(i)[1]
Idx == 1..Len(trace)

TypeOK == /\ pc \in {"start", "epoch", "batch", "bend", "eend", "end", "done"}
          /\ stop \in BOOLEAN /\ ep \in Nat /\ b \in 0..NB
          /\ \A i \in Idx : Kind(i) \in {"train_start", "epoch_start", "batch_start", "batch_end", "epoch_end", "train_end"}

\* the flag is sticky
Sticky == \A i \in Idx : \A j \in Idx : (i < j /\ StopAfter(i)) => StopAfter(j)

\* once a batch end or an epoch end has carried the request, no further batch or epoch begins
NoBatchAfterStopSeen ==
  \A i \in Idx : \A j \in Idx :
     (i < j /\ StopAfter(i) /\ Kind(i) \in {"batch_end", "epoch_end"}) => Kind(j) \notin {"batch_start", "epoch_start"}

\* a request made at train / epoch / batch start lets at most the one current or following batch run
AtMostOneBatchAfterEarlyStop ==
  \A i \in Idx : StopAfter(i) =>
     \A j \in Idx : \A k \in Idx : (i < j /\ j < k /\ Kind(j) = "batch_start") => Kind(k) # "batch_start"

\* complete behaviours: empty, or train_start ... train_end with exactly one train_end
TrainEndOnce == pc = "done" => (trace = <<>> \/ (Kind(1) = "train_start" /\ Kind(Len(trace)) = "train_end"
                 /\ \A i \in 1..(Len(trace) - 1) : Kind(i) # "train_end"))

\* every epoch that starts also ends (even when stopped), in order, and batches are paired
EpochEndMatchesStart == pc = "done" =>
   \A i \in Idx : Kind(i) = "epoch_start" =>
       \E j \in Idx : /\ i < j /\ Kind(j) = "epoch_end" /\ Ev(j)[2] = Ev(i)[2]
                      /\ \A k \in Idx : (i < k /\ k < j) => Kind(k) \in {"batch_start", "batch_end"}
BatchesPaired == \A i \in Idx : Kind(i) = "batch_end" => (i > 1 /\ Kind(i - 1) = "batch_start" /\ Ev(i - 1)[2] = Ev(i)[2] /\ Ev(i - 1)[3] = Ev(i)[3])

\* a run started with the request already made emits nothing
PreStopEmitsNothing == (pc = "done" /\ trace = <<>>) => stop
====
