"""Runner:  python -m qmc.run CNN --tier quick|thorough [--replay file] [--jobs N]

exit 0  property held on everything explored (known findings are printed, not failed)
exit 1  at least one violation not listed in known_findings.json  (VIOLATION line printed)
exit 2  engine error (harness lost control: unowned randomness, diverging replay, TLC missing ...)
"""
import argparse
import hashlib
import importlib
import json
import multiprocessing as mp
import os
import subprocess
import sys
import time
import traceback

from . import common
from .common import EngineError, LibRaised, raised_in_library, exc_site
from .engine import acc as accmod
from .engine.acc import Acc, merge

HOME = common.HOME
_MOD = None


def _load(pid):
    return importlib.import_module(f"qmc.props.{pid.lower()}")


def _guarded(fn, arg):
    """run one work item; library failures that a module did not classify itself become generic
    violations, harness failures become engine errors."""
    try:
        a = fn(arg)
        return a.to_dict() if isinstance(a, Acc) else a
    except LibRaised as e:
        a = Acc()
        a.viol(f"raised:{e.kind}:{e.site}", {"item": arg}, observed=e.tb, detail="library raised where the property prescribes a result")
        return a.to_dict()
    except EngineError as e:
        a = Acc()
        a.engine_error = f"{type(e).__name__}: {e}\n" + traceback.format_exc()[-1500:]
        return a.to_dict()
    except Exception as e:  # noqa: BLE001
        a = Acc()
        if raised_in_library(e):
            a.viol(f"raised:{type(e).__name__}:{exc_site(e)}", {"item": arg}, observed=traceback.format_exc()[-1500:],
                   detail="library raised where the property prescribes a result")
        else:
            a.engine_error = traceback.format_exc()[-2500:]
        return a.to_dict()


def _work(item):
    return _guarded(_MOD.run_item, item)


def _expand(task):
    try:
        return _MOD.expand_impl(task)
    except Exception as e:  # noqa: BLE001
        a = Acc()
        if isinstance(e, LibRaised) or (not isinstance(e, EngineError) and raised_in_library(e)):
            a.viol(f"raised:{type(e).__name__}:{exc_site(getattr(e, 'exc', e))}", {"root": task[0], "history": task[1] + [task[2]]},
                   observed=traceback.format_exc()[-1500:])
            return dict(key="__raised__" + common.sha([task[1], task[2]]), acc=a.to_dict(), dead=True)
        a.engine_error = traceback.format_exc()[-2500:]
        return dict(key="__error__", acc=a.to_dict(), dead=True)


def tree_info():
    def git(*a):
        try:
            return subprocess.run(["git", "-C", common.REPO] + list(a), capture_output=True, text=True, timeout=30).stdout
        except Exception:  # noqa: BLE001
            return ""

    head = git("rev-parse", "HEAD").strip()
    diff = git("diff", "HEAD")
    return dict(repo=common.REPO, head=head[:12], diff_sha256=hashlib.sha256(diff.encode()).hexdigest()[:16], dirty=bool(diff.strip()))


def load_findings():
    p = os.path.join(HOME, "known_findings.json")
    try:
        with open(p) as f:
            return json.load(f)
    except FileNotFoundError:
        return []


def validate_evidence(ev):
    try:
        import jsonschema

        with open("/root/.vp/EVIDENCE.schema.json") as f:
            schema = json.load(f)
        jsonschema.validate(ev, schema)
        return "jsonschema"
    except ImportError:
        pass
    except FileNotFoundError:
        pass
    # structural fallback
    for k in ("property_id", "tier", "seed", "level", "coverage", "wall_s"):
        if k not in ev:
            raise EngineError(f"evidence lacks {k}")
    c = ev["coverage"]
    for k in ("states", "transitions", "traces_validated_against_impl", "samples", "evaluations", "distinct_nontrivial"):
        if k not in c:
            raise EngineError(f"evidence coverage lacks {k}")
    if not c["samples"] or c["states"] < 1 or c["transitions"] < 1:
        raise EngineError("evidence coverage is vacuous")
    return "structural"


def write_evidence(pid, ev):
    d = os.path.join(HOME, "evidence")
    os.makedirs(d, exist_ok=True)
    how = validate_evidence(ev)
    ev["coverage"]["evidence_validated_by"] = how
    tmp = os.path.join(d, f".{pid}.json.tmp")
    with open(tmp, "w") as f:
        json.dump(ev, f, indent=1, sort_keys=False)
        f.write("\n")
    os.replace(tmp, os.path.join(d, f"{pid}.json"))


def write_replay(pid, v, tree):
    d = os.path.join(HOME, "replays", pid)
    os.makedirs(d, exist_ok=True)
    body = dict(property=pid, signature=v["signature"], case=v["case"], observed=v["observed"], expected=v["expected"],
                detail=v["detail"], tolerance=v.get("tolerance"), tree=tree)
    h = hashlib.sha256(json.dumps([pid, v["signature"], v["case"]], sort_keys=True).encode()).hexdigest()[:12]
    path = os.path.join(d, f"{h}.json")
    body["how"] = f"./check {pid} --replay {path}"
    with open(path, "w") as f:
        json.dump(body, f, indent=1)
        f.write("\n")
    return path


def report(pid, total, tree, replay_mode=False):
    """group violations by signature, consult known findings, print lines; returns (#new, #known)"""
    findings = [f for f in load_findings() if f.get("property") == pid]
    open_sigs = {f["signature"]: f for f in findings if f.get("status") == "open"}
    groups = {}
    for v in total.get("violations", []):
        groups.setdefault(v["signature"], []).append(v)
    new = known = 0
    for sig in sorted(groups):
        vs = sorted(groups[sig], key=lambda v: (len(json.dumps(v["case"])), json.dumps(v["case"], sort_keys=True)))
        if sig in open_sigs:
            known += 1
            print(f"KNOWN-FINDING: property={pid} {sig} :: {open_sigs[sig].get('what', '')} (cases here: {len(vs)})")
            continue
        new += 1
        path = write_replay(pid, vs[0], tree)
        print(f"VIOLATION property={pid} replay={path}")
        if _MOD is not None and hasattr(_MOD, "replay") and not replay_mode:
            c0 = json.loads(json.dumps(vs[0]["case"]))
            again = _guarded(_MOD.run_item, c0["item"]) if isinstance(c0, dict) and set(c0) == {"item"} and hasattr(_MOD, "run_item") else _guarded(_MOD.replay, c0)
            ok = bool(again.get("violations"))
            print(f"  replayed in isolation (no explorer): {'violation reproduced' if ok else 'NOT reproduced - the case needs its surrounding history; see the replay file'}")
        print(f"  signature={sig} cases_recorded={len(vs)} detail={json.dumps(vs[0]['detail'])[:300]}")
        for extra in vs[1:3]:
            write_replay(pid, extra, tree)
    return new, known, {s: len(v) for s, v in groups.items()}


def selftest():
    from .engine import tape, env
    import torch

    # explorer: full tree of a 3-point body with arities 2,3,2 has 12 leaves; bound 1 gives 1+1+2+1
    def body(t):
        return (t.choose(2), t.choose(3), t.choose(2))

    st = tape.Stats()
    outs = {r for _, r in tape.explore(body, stats=st)}
    assert len(outs) == 12 and st.executions == 12, (len(outs), st.executions)
    outs1 = [r for _, r in tape.explore(body, bound=1)]
    assert len(outs1) == 5, outs1
    outs2 = [r for _, r in tape.explore(body, bound=2)]
    assert len(outs2) == 1 + 4 + (1 * 2 + 1 * 1 + 2 * 1), len(outs2)
    # divergence detection
    try:
        tape.replay(body, [1, 5, 0], lenient=False)
        raise AssertionError("divergence not detected")
    except tape.Divergence:
        pass
    # seam: every random family member is intercepted and decided draws leave the generator alone
    seen = []

    def dec(name, func, args, kwargs):
        seen.append(name)
        if name == "bernoulli":
            p = args[0]
            x = torch.ones_like(p)
            if kwargs.get("out") is not None:
                kwargs["out"].copy_(x)
                return kwargs["out"]
            return x
        if name == "randperm":
            return torch.arange(args[0])
        if name == "randint":
            lo, hi, size = env.parse_randint(args, kwargs)
            return torch.zeros(size, dtype=torch.long) + lo
        if name == "randn":
            return torch.zeros(*args, dtype=kwargs.get("dtype"))
        return env.PASS

    with env.RngGuard("decide"):
        with env.Owned(dec):
            b = torch.zeros(3)
            torch.bernoulli(torch.full((3,), 0.5), out=b)
            torch.distributions.Bernoulli(probs=0.5).sample(torch.Size((2, 2)))
            torch.randperm(4)
            torch.randint(3, size=(2,), dtype=torch.long)
            torch.randn(2, 2, dtype=torch.double)
    assert seen == ["bernoulli", "bernoulli", "randperm", "randint", "randn"], seen
    assert env.nth_permutation(3, 0) == [0, 1, 2] and env.nth_permutation(3, 5) == [2, 1, 0]
    try:
        with env.RngGuard("decide"):
            torch.rand(1)
        raise AssertionError("guard did not trip")
    except EngineError:
        pass
    common.lib()
    print("selftest: ok (explorer, divergence, seam, guard, library import from %s)" % common.REPO)
    return 0


def main(argv=None):
    global _MOD
    ap = argparse.ArgumentParser()
    ap.add_argument("prop", nargs="?")
    ap.add_argument("--tier", default=os.environ.get("VERIF_TIER", "quick"), choices=["quick", "thorough"])
    ap.add_argument("--replay")
    ap.add_argument("--jobs", type=int, default=int(os.environ.get("VERIF_JOBS", "0")))
    ap.add_argument("--selftest", action="store_true")
    ap.add_argument("--no-evidence", action="store_true")
    args = ap.parse_args(argv)
    if args.selftest:
        return selftest()
    if not args.prop:
        ap.error("property id required")
    pid = args.prop.upper()
    seed = int(os.environ.get("VERIF_SEED", "0") or 0)
    t0 = time.time()
    try:
        common.lib()
        mod = _load(pid)
    except EngineError as e:
        print(f"ENGINE-ERROR {e}")
        return 2
    _MOD = mod
    tree = tree_info()

    if args.replay:
        with open(args.replay) as f:
            rp = json.load(f)
        total = {}
        case = rp["case"]
        if isinstance(case, dict) and set(case) == {"item"} and hasattr(mod, "run_item"):
            # a generic "library raised" violation recorded by the runner: the replay unit is the whole work item
            merge(total, _guarded(mod.run_item, case["item"]))
        else:
            merge(total, _guarded(mod.replay, case))
        if total.get("engine_error"):
            print("ENGINE-ERROR during replay\n" + total["engine_error"])
            return 2
        if total.get("violations"):
            for v in total["violations"][:5]:
                print(f"VIOLATION property={pid} replay={args.replay}")
                print(f"  signature={v['signature']} observed={json.dumps(v['observed'])[:400]} expected={json.dumps(v['expected'])[:400]}")
            return 1
        print(f"replay: property={pid} no violation on this tree ({tree['head']}, dirty={tree['dirty']})")
        return 0

    jobs = args.jobs or min(16, os.cpu_count() or 1)
    total = {}
    extra = {}
    pool = None
    try:
        engine = getattr(mod, "ENGINE", "items")
        if engine == "bfs":
            from .engine import bfs

            mod.expand_impl = mod.expand
            mod.expand = _expand
            pool = mp.get_context("fork").Pool(jobs) if jobs > 1 else None
            graph = bfs.run(mod, args.tier, pool, total, seed)
            extra["graph"] = graph
        else:
            items = mod.plan(args.tier, seed)
            # determinism self-check: the first planned item is executed twice in this process and must
            # give identical observations (counts, outcome hashes, violation signatures) - a divergence
            # means the harness does not own all nondeterminism and no verdict can be trusted
            if items and not os.environ.get("QMC_NO_SELFCHECK") and getattr(mod, "SELFCHECK", True):
                probe = min(items[:8], key=lambda it: len(json.dumps(it)))
                a, b = _work(probe), _work(probe)
                fp = lambda d: (d["evaluations"], d["nontrivial"], sorted(map(str, d["outcomes"])), d["n_violations"], [v["signature"] for v in d["violations"]], d.get("engine_error"))  # noqa: E731
                if fp(a) != fp(b):
                    raise EngineError("determinism self-check failed: the same work item gave different observations when executed twice")
                extra["determinism_selfcheck"] = dict(item=probe, executed_twice=True, identical=True)
            if seed:
                k = seed % max(1, len(items))
                items = items[k:] + items[:k]
            extra["items"] = len(items)
            if jobs > 1 and len(items) > 1:
                pool = mp.get_context("fork").Pool(min(jobs, len(items)))
                it = pool.imap_unordered(_work, items, 1)
            else:
                it = map(_work, items)
            for d in it:
                merge(total, d)
                if total.get("engine_error"):
                    break
        if hasattr(mod, "post") and not total.get("engine_error"):
            mod.post(args.tier, total, extra, pool)
    except EngineError as e:
        total["engine_error"] = f"{e}"
    finally:
        if pool is not None:
            pool.terminate()
            pool.join()

    wall = time.time() - t0
    if total.get("engine_error"):
        print(f"ENGINE-ERROR property={pid}\n{total['engine_error']}")
        return 2

    new, known, by_sig = report(pid, total, tree)

    outcomes = len(total.get("outcomes", ()))
    states = total.get("states", 0) or total.get("evaluations", 0)
    transitions = total.get("transitions", 0) or total.get("evaluations", 0)
    cov = dict(
        states=int(states),
        transitions=int(transitions),
        traces_validated_against_impl=int(total.get("traces", 0) or total.get("evaluations", 0)),
        evaluations=int(total.get("evaluations", 0)),
        distinct_nontrivial=int(total.get("nontrivial", 0)),
        rule=getattr(mod, "RULE", ""),
        samples=total.get("samples", [])[:6],
        exhaustive=bool(getattr(mod, "EXHAUSTIVE", True)) and not total.get("counters", {}).get("capped", 0),
        bound=mod.bound(args.tier) if hasattr(mod, "bound") else {},
        distinct_outcomes=outcomes,
        choice_points=int(total.get("choice_points", 0)),
        counters=total.get("counters", {}),
        worst_relative_error=total.get("worst", 0.0),
        violations_by_signature=by_sig,
        known_findings_reported=known,
        tree=tree,
        workers=jobs,
        engine=getattr(mod, "ENGINE_NAME", engine),
        meaning_of_counts=getattr(mod, "COUNTS", "states = distinct enumerated cases / choice-tree nodes / canonical abstract states; "
                                  "transitions = executions of real library code compared step-for-step with the reference; "
                                  "traces_validated_against_impl = complete executions whose every observation was compared"),
    )
    cov.update(extra)
    ev = dict(property_id=pid, tier=args.tier, seed=seed, level="model_checking", coverage=cov,
              assumptions=list(getattr(mod, "ASSUMPTIONS", [])) + [
                  "CPU, float64 parameters, tree under test imported from " + common.REPO,
                  "bounded exhaustive enumeration: nothing is claimed outside the stated alphabets and bounds"],
              wall_s=round(wall, 2), violations=int(total.get("n_violations", 0)))
    vacuous = cov["evaluations"] < 1 or not cov["samples"] or (getattr(mod, "MIN_OUTCOMES", 2) > outcomes)
    if vacuous and not new and not known:
        print(f"ENGINE-ERROR property={pid} vacuous exploration: evaluations={cov['evaluations']} outcomes={outcomes}")
        return 2
    if not args.no_evidence:
        try:
            write_evidence(pid, ev)
        except Exception as e:  # noqa: BLE001
            print(f"ENGINE-ERROR property={pid} evidence invalid: {e}")
            return 2
    print(f"{pid} tier={args.tier} seed={seed} evaluations={cov['evaluations']} states={cov['states']} transitions={cov['transitions']} "
          f"outcomes={outcomes} worst={cov['worst_relative_error']:.2e} violations={ev['violations']} new_signatures={new} known={known} wall={wall:.1f}s")
    return 1 if new else 0


if __name__ == "__main__":
    sys.exit(main())
