#!/usr/bin/env python3
"""(re)generate MANIFEST.json from the property modules that exist under qmc/props."""
import json, os, re, sys
HOME = os.path.dirname(os.path.dirname(os.path.abspath(__file__)))
props = [json.loads(l) for l in open(os.path.join(HOME, "properties.jsonl"))]
META = json.load(open(os.path.join(HOME, "tools", "manifest_meta.json")))
checks, na = [], []
for p in props:
    pid = p["id"]
    if os.path.exists(os.path.join(HOME, "qmc", "props", pid.lower() + ".py")) and pid in META:
        m = META[pid]
        checks.append({
            "property_id": pid,
            "quick_cmd": f"./check {pid} --tier quick",
            "thorough_cmd": f"./check {pid} --tier thorough",
            "evidence_file": f"/verif/evidence/{pid}.json",
            "replay_cmd_template": f"./check {pid} --replay {{path}}",
            "engine": m["engine"],
            "level_claimed": {"category": "model_checking", "text": m["text"], "design_ref": f"DESIGN.md section 5 / {pid}"},
            "level_note": m["note"],
            "technique": m["technique"],
        })
    else:
        na.append({"property_id": pid, "reason": "check not built yet (work in progress; see DESIGN.md section 11 for the build order)"})
man = {
    "version": 1,
    "setup_cmd": "bash setup.sh",
    "hooks": {
        "guard": "QUCUMBER_VERIF",
        "enable": "no source hooks exist: every seam is external (TorchFunctionMode over torch's random functions, user-supplied optimizer/scheduler/callback classes, instance-level wrapping of public methods); checks import /repo's working tree directly",
        "baseline_off_cmd": "cd /repo && /venv/bin/python -m pytest -ra -q -p no:cacheprovider --timeout=900 --continue-on-collection-errors",
        "source_commits": [],
        "add_only": True,
    },
    "engines": [
        {"name": "E1 choice-tape explorer", "path": "qmc/engine/tape.py", "serves_properties": ["C05", "C06", "C07", "C12", "C17"], "kind_free_text": "stateless model checking of the real code: deviation-bounded DFS over environment answers (Bernoulli outcomes, shuffles, stop requests) by prefix replay"},
        {"name": "E2 history BFS", "path": "qmc/engine/bfs.py", "serves_properties": ["C11", "C14", "C20", "C04", "C13", "C18"], "kind_free_text": "explicit-state search over operation histories on fresh real objects with a lock-step reference model (BFS with canonical-state dedup for C11; exhaustive history enumeration for C14, C20 and the history layers of C04, C13, C18)"},
        {"name": "E3 input lattice", "path": "qmc/props", "serves_properties": ["C01", "C02", "C03", "C04", "C08", "C09", "C10", "C15", "C16", "C18", "C19"], "kind_free_text": "exhaustive enumeration of finite input/configuration lattices, real code vs definition-level reference"},
        {"name": "E4 TLC bridge", "path": "qmc/engine/tlc.py", "serves_properties": ["C12", "C18"], "kind_free_text": "TLA+ specs (FitProtocol.tla, EarlyStop.tla) checked by TLC; every complete behaviour replayed on the real code and every implementation trace looked up in the model (two-way equivalence)"},
        {"name": "owned nondeterminism", "path": "qmc/engine/env.py", "serves_properties": ["C05", "C06", "C07", "C12", "C13", "C14", "C17", "C20"], "kind_free_text": "TorchFunctionMode seam over every random call + RNG-escape guard"},
    ],
    "checks": checks,
    "not_applicable": na,
    "notes": "All checks: exit 0 held / 1 VIOLATION (not in known_findings.json) / 2 engine error. VERIF_REPO selects the tree (default /repo). See DESIGN.md.",
}
json.dump(man, open(os.path.join(HOME, "MANIFEST.json"), "w"), indent=1)
print("checks:", [c["property_id"] for c in checks], "not_applicable:", len(na))
