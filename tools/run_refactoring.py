#!/usr/bin/env python3
"""False-alarm side of the audit: run ALL checks against an independently written behaviour-preserving
refactoring of the library (a scratch worktree of /repo with the patch applied, VERIF_REPO pointing at
it).  Every check must stay silent; any alarm is analysed (either the refactoring is not equivalent
after all, or the check demands more than the property states and is corrected).

  python3 tools/run_refactoring.py a03 1 [--checks C02,C03] [--src /tmp/refac] [--tier quick]
Result: refactorings/<area>-<k>/{patch.diff, notes.md, equiv.py, meta.json}
"""
import argparse, json, os, re, shutil, subprocess, sys, time

HOME = os.path.dirname(os.path.dirname(os.path.abspath(__file__)))
ALL = [f"C{i:02d}" for i in range(1, 21)]
BASELINE = ["/venv/bin/python", "-m", "pytest", "-q", "-p", "no:cacheprovider", "--timeout=900", "--continue-on-collection-errors"]


def sh(cmd, **kw):
    return subprocess.run(cmd, capture_output=True, text=True, **kw)


def main():
    ap = argparse.ArgumentParser()
    ap.add_argument("area")
    ap.add_argument("k")
    ap.add_argument("--checks", default="")
    ap.add_argument("--src", default="/tmp/refac")
    ap.add_argument("--tier", default="quick")
    ap.add_argument("--skip-baseline", action="store_true")
    a = ap.parse_args()
    rid = f"{a.area}-{a.k}"
    src = os.path.join(a.src, a.area, f"refac{a.k}")
    wt = f"/tmp/rf_{rid}"
    sh(["git", "-C", "/repo", "worktree", "remove", "--force", wt])
    if sh(["git", "-C", "/repo", "worktree", "add", "--detach", wt, "HEAD"]).returncode:
        print("worktree failed"); return 2
    out = os.path.join(HOME, "refactorings", rid)
    os.makedirs(out, exist_ok=True)
    if not os.path.exists(os.path.join(src, "patch.diff")):
        src = out  # re-run of a stored refactoring (the sub-agent's scratch directory is gone)
    meta = dict(id=rid, kind="behaviour-preserving refactoring written by an independent sub-agent", repo_head=sh(["git", "-C", "/repo", "rev-parse", "--short", "HEAD"]).stdout.strip())
    prev = os.path.join(out, "meta.json")
    old = json.load(open(prev)) if os.path.exists(prev) else {}
    try:
        r = sh(["git", "-C", wt, "apply", os.path.join(src, "patch.diff")])
        if r.returncode:
            print("patch does not apply", r.stderr); return 1
        meta["files_changed"] = sh(["git", "-C", wt, "diff", "--stat"]).stdout.strip().splitlines()[-1].strip()
        env = dict(os.environ, PYTHONDONTWRITEBYTECODE="1")
        if a.skip_baseline and old.get("baseline_with_change"):
            meta["baseline_with_change"] = old["baseline_with_change"]
        else:
            t = sh(BASELINE, cwd=wt, env=env)
            tl = [l for l in t.stdout.splitlines() if " passed" in l or " failed" in l]
            meta["baseline_with_change"] = tl[-1].strip("= ") if tl else t.stdout[-200:]
        env["VERIF_REPO"] = wt
        checks = [c for c in a.checks.split(",") if c] or ALL
        meta["checks"] = dict(old.get("checks", {})) if a.checks else {}
        for c in checks:
            t0 = time.time()
            r = sh([os.path.join(HOME, "check"), c, "--tier", a.tier, "--no-evidence"], env=env)
            sigs = re.findall(r"signature=(\S+)", r.stdout)
            meta["checks"][c] = dict(exit=r.returncode, signatures=sigs[:6], wall_s=round(time.time() - t0, 1),
                                     last_line=r.stdout.strip().splitlines()[-1][:200] if r.stdout.strip() else r.stderr[-300:])
            m = re.search(r"replay=(\S+)", r.stdout)
            if m and os.path.exists(m.group(1)):
                shutil.copy(m.group(1), os.path.join(out, f"alarm_{c}.json"))
        meta["alarms"] = sorted(c for c, v in meta["checks"].items() if v["exit"] != 0)
        meta["silent"] = not meta["alarms"]
        for f in ("patch.diff", "notes.md", "equiv.py"):
            if os.path.exists(os.path.join(src, f)) and os.path.abspath(src) != os.path.abspath(out):
                shutil.copy(os.path.join(src, f), os.path.join(out, f))
        json.dump(meta, open(os.path.join(out, "meta.json"), "w"), indent=1)
        print(json.dumps(dict(id=rid, baseline=meta["baseline_with_change"], alarms={c: meta["checks"][c]["signatures"][:3] or meta["checks"][c]["last_line"][:120] for c in meta["alarms"]})))
        return 0
    finally:
        sh(["git", "-C", "/repo", "worktree", "remove", "--force", wt])
        shutil.rmtree(wt, ignore_errors=True)


if __name__ == "__main__":
    sys.exit(main())
