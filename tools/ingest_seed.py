#!/usr/bin/env python3
"""Confirm an independently produced property-breaking change and file it under /verif/seeded/<id>/.

  python3 tools/ingest_seed.py C07 1 [--checks C07,C06] [--tier quick] [--skip-baseline]

Steps (all in a scratch git worktree of /repo outside /repo and /verif, removed afterwards):
  1. the patch applies cleanly to /repo's HEAD
  2. the 245-test baseline still passes with it            (unless --skip-baseline)
  3. the demonstration exits 1 with the change and 0 without it
  4. the listed checks (default: the property's own) are run with VERIF_REPO = the changed worktree
Result: seeded/<id>/{patch.diff, demo.py, notes.md, meta.json}; meta.json records everything that was run.
"""
import argparse, json, os, re, shutil, subprocess, sys, time

HOME = os.path.dirname(os.path.dirname(os.path.abspath(__file__)))
SRC = "/tmp/seeds"
BASELINE = ["/venv/bin/python", "-m", "pytest", "-q", "-p", "no:cacheprovider", "--timeout=900", "--continue-on-collection-errors"]


def sh(cmd, **kw):
    return subprocess.run(cmd, capture_output=True, text=True, **kw)


def main():
    ap = argparse.ArgumentParser()
    ap.add_argument("prop")
    ap.add_argument("k")
    ap.add_argument("--checks", default="")
    ap.add_argument("--tier", default="quick")
    ap.add_argument("--skip-baseline", action="store_true")
    ap.add_argument("--src", default=SRC)
    ap.add_argument("--round", default="")
    a = ap.parse_args()
    pid = a.prop.upper()
    src = os.path.join(a.src, pid, f"change{a.k}")
    sid = f"{pid}-s{a.k}" if not a.round else f"{pid}-r{a.round}s{a.k}"
    wt = f"/tmp/sv_{sid}"
    sh(["git", "-C", "/repo", "worktree", "remove", "--force", wt])
    r = sh(["git", "-C", "/repo", "worktree", "add", "--detach", wt, "HEAD"])
    if r.returncode:
        print("worktree failed", r.stderr); return 2
    meta = dict(id=sid, breaks_property=pid, source="independent sub-agent given only the property text and a scratch worktree",
                repo_head=sh(["git", "-C", "/repo", "rev-parse", "--short", "HEAD"]).stdout.strip(), ran=[])
    try:
        patch = os.path.join(src, "patch.diff")
        demo = os.path.join(src, "demo.py")
        env = dict(os.environ, PYTHONDONTWRITEBYTECODE="1", QREPO=wt)
        d0 = sh(["/venv/bin/python", demo], env=env)
        meta["ran"].append(dict(cmd="demo.py on the unchanged tree", exit=d0.returncode))
        ap_ = sh(["git", "-C", wt, "apply", patch])
        if ap_.returncode:
            print("patch does not apply:", ap_.stderr); meta["status"] = "patch-does-not-apply"; print(json.dumps(meta)); return 1
        meta["files_changed"] = sh(["git", "-C", wt, "diff", "--stat"]).stdout.strip().splitlines()[-1].strip()
        d1 = sh(["/venv/bin/python", demo], env=env)
        meta["ran"].append(dict(cmd="demo.py on the changed tree", exit=d1.returncode, tail=(d1.stdout + d1.stderr).strip()[-300:]))
        prev = os.path.join(HOME, "seeded", sid, "meta.json")
        if a.skip_baseline and os.path.exists(prev):
            old = json.load(open(prev))
            if old.get("baseline_with_change"):
                meta["baseline_with_change"] = old["baseline_with_change"]
            meta["earlier_runs"] = old.get("earlier_runs", []) + [dict(checks={c: dict(exit=v["exit"], signatures=v["signatures"][:3]) for c, v in old.get("checks", {}).items()})]
        if not a.skip_baseline:
            t = sh(BASELINE, cwd=wt, env=env)
            tl = [l for l in t.stdout.splitlines() if " passed" in l or " failed" in l]
            meta["baseline_with_change"] = tl[-1].strip("= ") if tl else t.stdout[-200:]
        checks = [c for c in a.checks.split(",") if c] or [pid]
        env["VERIF_REPO"] = wt
        meta["checks"] = {}
        for c in checks:
            t0 = time.time()
            r = sh([os.path.join(HOME, "check"), c, "--tier", a.tier, "--no-evidence"], env=env)
            sigs = re.findall(r"signature=(\S+)", r.stdout)
            meta["checks"][c] = dict(tier=a.tier, exit=r.returncode, signatures=sigs[:8], wall_s=round(time.time() - t0, 1),
                                     last_line=r.stdout.strip().splitlines()[-1][:240] if r.stdout.strip() else r.stderr[-300:])
            # keep one replay file with the seed
            m = re.search(r"replay=(\S+)", r.stdout)
            if m and os.path.exists(m.group(1)):
                os.makedirs(os.path.join(HOME, "seeded", sid), exist_ok=True)
                shutil.copy(m.group(1), os.path.join(HOME, "seeded", sid, f"replay_{c}.json"))
        ok_demo = d0.returncode == 0 and d1.returncode == 1
        ok_base = "245 passed" in (meta.get("baseline_with_change") or "")
        meta["confirmed"] = bool(ok_demo and ok_base)
        meta["detected_by"] = [c for c, v in meta["checks"].items() if v["exit"] == 1]
        out = os.path.join(HOME, "seeded", sid)
        os.makedirs(out, exist_ok=True)
        shutil.copy(patch, os.path.join(out, "patch.diff"))
        shutil.copy(demo, os.path.join(out, "demo.py"))
        if os.path.exists(os.path.join(src, "notes.md")):
            shutil.copy(os.path.join(src, "notes.md"), os.path.join(out, "notes.md"))
            notes = open(os.path.join(src, "notes.md")).read()
            meta["needs_to_manifest"] = " ".join(notes.split())[:600]
        json.dump(meta, open(os.path.join(out, "meta.json"), "w"), indent=1)
        print(json.dumps(dict(id=sid, confirmed=meta["confirmed"], baseline=meta.get("baseline_with_change"), demo=[d0.returncode, d1.returncode],
                              detected_by=meta["detected_by"], checks={c: (v["exit"], v["signatures"][:3]) for c, v in meta["checks"].items()})))
        return 0
    finally:
        sh(["git", "-C", "/repo", "worktree", "remove", "--force", wt])
        shutil.rmtree(wt, ignore_errors=True)


if __name__ == "__main__":
    sys.exit(main())
