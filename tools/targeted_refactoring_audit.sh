#!/bin/bash
# $1 = list name
run() { python3 tools/run_refactoring.py $1 $2 --skip-baseline --src /nonexistent --checks $3; mkdir -p /root/.vp/keep/refac4; cp -r refactorings/$1-$2 /root/.vp/keep/refac4/$1-$2.$4; }
if [ "$1" = "A" ]; then
  for k in 1 2; do run a09 $k C11,C14,C17,C18 A; run a05 $k C14,C17,C18,C20 A; run a01 $k C05,C14,C20 A; done
else
  for k in 1 2; do run a10 $k C11,C17 B; run a06 $k C04 B; run a07 $k C04 B; run a03 $k C04,C11,C20 B; run a02 $k C05,C14,C20 B; run a04 $k C05,C14 B; run a08 $k C14,C17 B; done
fi
