#!/usr/bin/env python3
"""print the detection table of seeded/*/meta.json as markdown"""
import glob, json, os
HOME = os.path.dirname(os.path.dirname(os.path.abspath(__file__)))
rows = []
for p in sorted(glob.glob(os.path.join(HOME, "seeded", "*", "meta.json"))):
    m = json.load(open(p))
    first = m.get("earlier_runs", [])
    missed_first = bool(first) and not any(v["exit"] == 1 for v in first[0]["checks"].values())
    sigs = sorted({s for c, v in m["checks"].items() if v["exit"] == 1 for s in v["signatures"][:2]})
    rows.append((m["id"], m["breaks_property"], m.get("files_changed", ""), "yes" if m.get("confirmed") else "NO",
                 ", ".join(m["detected_by"]) or "MISSED", "; ".join(sigs)[:110], "missed at first, check strengthened" if missed_first else ""))
print("| seed | property | confirmed | detected by | signatures (first two) | note |")
print("|---|---|---|---|---|---|")
for r in rows:
    print(f"| {r[0]} | {r[1]} | {r[3]} | {r[4]} | `{r[5]}` | {r[6]} |")
