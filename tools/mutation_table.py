#!/usr/bin/env python3
"""regenerate mutants/RESULTS.md from mutants/RESULTS.json, RESULTS2.json and RESULTS_preserving.json"""
import json, os
HOME = os.path.dirname(os.path.dirname(os.path.abspath(__file__)))
out = ["# Mutation audit results", "",
       "Produced by `mutants/audit.py` (isolated `vp run` from a snapshot of /verif; each mutant applied to a scratch copy of /repo, "
       "then the property's quick check with `VERIF_REPO`; the 245-test baseline result with each mutant was recorded when the mutant was "
       "first audited, see the git history of this file).", ""]
tot = {}
for name, title in (("RESULTS.json", "Breaking mutants, set 1"), ("RESULTS2.json", "Breaking mutants, set 2"), ("RESULTS_preserving.json", "Behaviour-preserving rewrites (must stay silent)")):
    p = os.path.join(HOME, "mutants", name)
    if not os.path.exists(p):
        continue
    rs = sorted(json.load(open(p)), key=lambda r: r["id"])
    out += [f"## {title}", "", "| mutant | property | verdict | first signatures |", "|---|---|---|---|"]
    for r in rs:
        sigs = sorted({s for v in r.get("verdicts", {}).values() for s in v.get("signatures", [])[:2]})
        prop = r["property"] if isinstance(r["property"], str) else ",".join(r["property"])
        out.append(f"| {r['id']} | {prop} | {r['status']} | `{'; '.join(sigs)[:120]}` |")
        tot[r["status"]] = tot.get(r["status"], 0) + 1
    out.append("")
out.append("Totals: " + ", ".join(f"{k}: {v}" for k, v in sorted(tot.items())))
open(os.path.join(HOME, "mutants", "RESULTS.md"), "w").write("\n".join(out) + "\n")
print(tot)
